"""symx in floating-point mode: a scalar carrying z3 Float64 terms (round-to-nearest-even operations), and the
numpy stand-in needed to execute Domain.__init__/build_grid on it. Used only where the property is about machine numbers
(length of a float np.arange, comparison of a grid point with sigma)."""
import z3, numpy as _np, math

F64 = z3.Float64()
RNE = z3.RNE()


def fv(x):
    return z3.FPVal(float(x), F64)


class SF:
    __slots__ = ('t',)

    def __init__(self, t):
        self.t = t

    @staticmethod
    def lift(o):
        if isinstance(o, SF):
            return o
        if isinstance(o, (int, float, _np.floating, _np.integer)):
            return SF(fv(o))
        return None

    def _b(self, o, f, rev=False):
        o = SF.lift(o)
        if o is None:
            return NotImplemented
        return SF(f(RNE, o.t, self.t) if rev else f(RNE, self.t, o.t))

    def __add__(self, o): return self._b(o, z3.fpAdd)
    def __radd__(self, o): return self._b(o, z3.fpAdd, True)
    def __sub__(self, o): return self._b(o, z3.fpSub)
    def __rsub__(self, o): return self._b(o, z3.fpSub, True)
    def __mul__(self, o): return self._b(o, z3.fpMul)
    def __rmul__(self, o): return self._b(o, z3.fpMul, True)
    def __truediv__(self, o): return self._b(o, z3.fpDiv)
    def __rtruediv__(self, o): return self._b(o, z3.fpDiv, True)
    def __neg__(self): return SF(z3.fpNeg(self.t))

    def __deepcopy__(self, memo): return self
    def __copy__(self): return self

    def __float__(self):
        raise TypeError('realisation of a symbolic double')

    def __format__(self, spec): return 'SF(..)'
    def __repr__(self): return 'SF(..)'


class ArangeObligation:
    """np.arange(start, stop, step) was reached with symbolic doubles: numpy's length is ceil((stop-start)/step) computed
    in double arithmetic; execution continues with the length the code expects and the obligation 'length == expected'
    is handed to the harness."""
    def __init__(self, start, stop, step, length_term, expected):
        self.start, self.stop, self.step, self.length_term, self.expected = start, stop, step, length_term, expected


class NPF:
    """stand-in for the `np` global of pyPRISM.core.Domain in FP mode"""
    def __init__(self, expected_length):
        self.expected = expected_length
        self.obligations = []

    def __getattr__(self, k):
        return getattr(_np, k)

    @property
    def pi(self):
        return SF(fv(math.pi))

    def arange(self, start, stop=None, step=1, **kw):
        if not any(isinstance(x, SF) for x in (start, stop, step)):
            return _np.arange(start, stop, step, **kw)
        start, stop, step = map(SF.lift, (start, stop, step))
        q = z3.fpDiv(RNE, z3.fpSub(RNE, stop.t, start.t), step.t)          # numpy: len = ceil((stop - start)/delta) in double
        L = z3.fpRoundToIntegral(z3.RTP(), q)
        self.obligations.append(ArangeObligation(start, stop, step, L, self.expected))
        n = self.expected
        out = _np.empty(n, dtype=object)
        # numpy fill: a[0]=start, a[1]=start+step, a[i] = start + i*(a[1]-a[0])
        nxt = z3.fpAdd(RNE, start.t, step.t)
        delta = z3.fpSub(RNE, nxt, start.t)
        for i in range(n):
            out[i] = start if i == 0 else (SF(nxt) if i == 1 else SF(z3.fpAdd(RNE, start.t, z3.fpMul(RNE, fv(i), delta))))
        return out


def _pow(self, o):
    """x**n for small integer n (float or int exponent): repeated rounding multiplications.
    numpy calls C pow, which is (nearly) correctly rounded: for n=2 the two agree exactly; for n>2 the stub may differ
    in the last bits - verdicts that depend on it are always taken from the concrete replay."""
    n = int(o)
    if n != o or n < 0 or n > 64:
        raise TypeError('SF ** %r not encodable' % (o,))
    if n == 0:
        return SF(fv(1.0))
    r = self
    for _ in range(n - 1):
        r = r * self
    return r


SF.__pow__ = _pow


def fp_value(model, var):
    """the double a z3 model assigns to a Float64 variable, bit for bit"""
    import struct
    bv = model.eval(z3.fpToIEEEBV(var), model_completion=True).as_long()
    return struct.unpack('>d', bv.to_bytes(8, 'big'))[0]


def solve_fp(assertions, var_names, timeout_s=300):
    """decide a QF_FP query: cvc5 binary first (much faster on these kernels), then z3. Returns (verdict, {name: float})."""
    import subprocess, tempfile, os, re, struct
    sv = z3.Solver()
    sv.add(*assertions)
    smt = sv.to_smt2().replace('(check-sat)', '(check-sat)\n(get-value (%s))' % ' '.join(var_names))
    smt = '(set-option :produce-models true)\n(set-logic QF_FP)\n' + smt
    fd, name = tempfile.mkstemp(suffix='.smt2', dir=os.environ.get('TMPDIR', '/tmp')); os.close(fd)
    open(name, 'w').write(smt)
    try:
        for cmd in (['cvc5', '--tlimit=%d' % (timeout_s * 1000), name],):
            try:
                p = subprocess.run(cmd, capture_output=True, text=True, timeout=timeout_s + 20)
            except Exception:
                continue
            out = p.stdout or ''
            if '(error' in out:
                continue
            first = out.strip().splitlines()[0] if out.strip() else ''
            if first == 'unsat':
                return 'unsat', {}
            if first == 'sat':
                vals = {}
                for nm in var_names:
                    m = re.search(r'\(%s \(fp #b([01]) #b([01]+) #b([01]+)\)\)' % re.escape(nm), out)
                    if m:
                        bits = int(m.group(1) + m.group(2) + m.group(3), 2)
                        vals[nm] = struct.unpack('>d', bits.to_bytes(8, 'big'))[0]
                return 'sat', vals
    finally:
        os.unlink(name)
    sv.set('timeout', timeout_s * 1000)
    r = str(sv.check())
    if r == 'sat':
        m = sv.model()
        return 'sat', {nm: fp_value(m, z3.FP(nm, F64)) for nm in var_names}
    return r, {}
