"""numpy / scipy proxies installed (from outside the repository) as the module globals ``np``,
``dst``, ``root`` ... of every ``pyPRISM.*`` module while a harness runs in symbolic mode.
Everything not listed here is forwarded to real numpy."""
import sys, numpy as _np, z3, fractions
import scipy.fftpack as _fftpack
from .core import SR, SB, Ctx, rv, ZERO, ONE, sinpi, pi_sym, is_symbolic, NotEncodable, eqc

Fraction = fractions.Fraction


def objarr(shape, fill):
    a = _np.empty(shape, dtype=object)
    a.fill(fill)
    return a


def sdet(A):
    n = len(A)
    if n == 1:
        return A[0][0]
    if n == 2:
        return A[0][0] * A[1][1] - A[0][1] * A[1][0]
    acc = None
    for j in range(n):
        t = A[0][j] * sdet([list(r[:j]) + list(r[j + 1:]) for r in A[1:]])
        if j % 2:
            t = -t
        acc = t if acc is None else acc + t
    return acc


def sinv(M):
    """Matrix inverse by adjugate / determinant over SR (side condition det != 0)."""
    M = _np.asarray(M, dtype=object)
    if M.ndim == 3:
        return _np.stack([sinv(m) for m in M]) if len(M) else M.copy()
    n = M.shape[0]
    if n > 4:
        raise NotEncodable('symbolic inverse of rank %d' % n)
    A = [[SR.lift(M[i, j]) for j in range(n)] for i in range(n)]
    d = sdet(A)
    di = d.inv()
    out = _np.empty((n, n), dtype=object)
    if n == 1:
        out[0, 0] = di
        return out
    for i in range(n):
        for j in range(n):
            c = sdet([list(r[:i]) + list(r[i + 1:]) for k, r in enumerate(A) if k != j])  # cofactor (j,i)
            out[i, j] = (-c if (i + j) % 2 else c) * di
    return out


def solve_cramer(A, b):
    n = len(A)
    d = sdet(A)
    di = d.inv()
    out = []
    for j in range(n):
        Aj = [[(b[i] if c == j else A[i][c]) for c in range(n)] for i in range(n)]
        out.append(sdet(Aj) * di)
    return out


class _Poly1d:
    def __init__(self, coeffs):
        self.c = list(coeffs)

    def __call__(self, x):
        acc = SR.lift(0)
        for c in self.c:
            acc = acc * x + c
        return acc


class _Linalg:
    def inv(self, a):
        aa = _np.asarray(a)
        return sinv(aa) if aa.dtype == object else _np.linalg.inv(a)

    def __getattr__(self, k):
        return getattr(_np.linalg, k)


def _elementwise(name):
    real = getattr(_np, name)

    def f(x, *a, **kw):
        out_ = kw.pop('out', None)
        if out_ is not None or (a and isinstance(a[0], _np.ndarray)):
            # numpy's out= argument (keyword or second positional): the result is written into it and it is returned
            tgt = out_ if out_ is not None else a[0]
            res = f(x)
            tgt[...] = res
            return tgt
        if isinstance(x, SR):
            return getattr(x, name)()
        xa = _np.asarray(x) if not isinstance(x, _np.ndarray) else x
        if xa.dtype == object:
            out = _np.empty(xa.shape, dtype=object)
            for idx in _np.ndindex(*xa.shape):
                el = xa[idx]
                out[idx] = getattr(el, name)() if hasattr(el, name) else getattr(SR.lift(el), name)()
            return out if xa.ndim else out[()]
        return real(x, *a, **kw)
    f.__name__ = name
    return f


class NP:
    """Proxy for the ``np`` global of pyPRISM modules."""
    linalg = _Linalg()
    LOADTXT = None      # harness hook: callable(filename) -> array
    SYMBOLIC_PI = True

    def __getattr__(self, k):
        return getattr(_np, k)

    @property
    def pi(self):
        return pi_sym() if (NP.SYMBOLIC_PI and Ctx.cur is not None) else _np.pi

    def zeros(self, shape, dtype=None, **kw):
        return objarr(shape, 0.0)

    def ones(self, shape, dtype=None, **kw):
        return objarr(shape, 1.0)

    def empty(self, shape, dtype=None, **kw):
        return objarr(shape, 0.0)

    def zeros_like(self, a, **kw):
        if isinstance(a, _np.ndarray) and a.dtype.kind in 'iub':
            return _np.zeros_like(a, **kw)      # an integer/boolean template keeps its dtype, as in numpy (truncation is visible)
        return objarr(_np.shape(a), 0.0)

    def ones_like(self, a, **kw):
        if isinstance(a, _np.ndarray) and a.dtype.kind in 'iub':
            return _np.ones_like(a, **kw)
        return objarr(_np.shape(a), 1.0)

    def arange(self, start, stop=None, step=1, **kw):
        if not any(isinstance(x, SR) for x in (start, stop, step)):
            return _np.arange(start, stop, step, **kw)
        if stop is None:
            start, stop = 0, start
        start, stop, step = map(SR.lift, (start, stop, step))
        q = (stop - start) / step
        # numpy: len = ceil((stop-start)/step): the unique integer n with n-1 < q <= n.
        # guess n from the value of q at a sample point, then let the solver decide that it is the length under the
        # path condition (if other lengths are feasible the run forks on them)
        c = Ctx.cur
        import math as _m
        fp = c.fingerprint(q)
        cands = []
        if fp is not None:
            n0 = _m.ceil(fp)
            cands = [n0, n0 - 1, n0 + 1]
        nv = None
        for cand in cands:
            if bool(SB(z3.And(cand - 1 < q.term(), q.term() <= cand))):
                nv = cand; break
        if nv is None:
            n = z3.Int('n!arange')
            r, sv = c.check(z3.And(z3.ToReal(n) - 1 < q.term(), q.term() <= z3.ToReal(n)))
            if r != 'sat':
                raise NotEncodable('arange: cannot determine a length (%s)' % r)
            nv = sv.model()[n].as_long()
            if not bool(SB(z3.And(nv - 1 < q.term(), q.term() <= nv))):
                return self.arange(start, stop, step)
        nv = max(nv, 0)
        out = _np.empty(nv, dtype=object)
        for i in range(nv):
            out[i] = start + step * i
        return out

    def polyfit(self, x, y, deg, **kw):
        xa = _np.asarray(x); ya = _np.asarray(y)
        if xa.dtype != object and ya.dtype != object:
            return _np.polyfit(x, y, deg, **kw)
        m = deg + 1
        X = [[SR.lift(xi) ** (deg - p) for p in range(m)] for xi in xa]
        Y = [SR.lift(v) for v in ya]
        # least squares via the normal equations (X^T X) c = X^T y, solved by Cramer's rule
        A = [[sum((X[i][a] * X[i][b] for i in range(len(X))), SR.lift(0)) for b in range(m)] for a in range(m)]
        bb = [sum((X[i][a] * Y[i] for i in range(len(X))), SR.lift(0)) for a in range(m)]
        sol = solve_cramer(A, bb)
        out = _np.empty(m, dtype=object)
        for i, s in enumerate(sol):
            out[i] = s
        return out

    def poly1d(self, c, *a, **kw):
        ca = _np.asarray(c)
        if ca.dtype == object:
            return _Poly1d(ca)
        return _np.poly1d(c, *a, **kw)

    def allclose(self, a, b, rtol=1e-5, atol=1e-8, **kw):
        aa = _np.asarray(a); ba = _np.asarray(b)
        if aa.dtype != object and ba.dtype != object:
            return _np.allclose(a, b, rtol=rtol, atol=atol, **kw)
        aa, ba = _np.broadcast_arrays(aa, ba)
        conj = []
        for idx in _np.ndindex(*aa.shape):
            x = SR.lift(aa[idx]); y = SR.lift(ba[idx])
            lhs = abs(x - y); rhs = abs(y) * rtol + atol
            conj.append((lhs <= rhs).e)
        return bool(SB(z3.And(*conj))) if conj else True

    def isclose(self, a, b, rtol=1e-5, atol=1e-8, **kw):
        aa = _np.asarray(a); ba = _np.asarray(b)
        if aa.dtype != object and ba.dtype != object and not isinstance(a, SR) and not isinstance(b, SR):
            return _np.isclose(a, b, rtol=rtol, atol=atol, **kw)
        aa, ba = _np.broadcast_arrays(aa, ba)
        out = _np.empty(aa.shape, dtype=bool)
        for idx in _np.ndindex(*aa.shape):
            x = SR.lift(aa[idx]); y = SR.lift(ba[idx])
            out[idx] = bool(abs(x - y) <= abs(y) * rtol + atol)
        return out if out.ndim else bool(out[()])

    def loadtxt(self, fname, *a, **kw):
        if NP.LOADTXT is not None:
            arr = NP.LOADTXT(fname)
            mr = kw.get('max_rows')
            sk = kw.get('skiprows', 0) or 0
            if (mr is not None or sk) and getattr(arr, 'ndim', 0) >= 1:
                arr = arr[sk:(sk + mr) if mr is not None else None]        # numpy: rows are skipped / limited before parsing
            uc = kw.get('usecols')
            if uc is not None and getattr(arr, 'ndim', 0) == 2:
                arr = arr[:, uc]
            return arr
        return _np.loadtxt(fname, *a, **kw)

    exp = staticmethod(_elementwise('exp'))
    log = staticmethod(_elementwise('log'))
    sin = staticmethod(_elementwise('sin'))
    cos = staticmethod(_elementwise('cos'))
    sqrt = staticmethod(_elementwise('sqrt'))
    sinc = staticmethod(_elementwise('sinc'))

    def log1p(self, x, *a, **kw):
        return NP.log(x + 1.0, *a, **kw)

    def expm1(self, x, *a, **kw):
        return NP.exp(x, *a, **kw) - 1.0


np = NP()

DST_MODE = 'exact'   # 'exact': algebraic sines (N<=4) | 'uf': Ackermannised sin of symbolic angle


def _sin_weight(num, den):
    if DST_MODE == 'exact':
        return sinpi(num, den)
    return (pi_sym() * Fraction(num, den)).sin()


def dst(x, type=2, **kw):
    """scipy.fftpack.dst (unnormalised) types 2 and 3 as explicit sine sums over SR."""
    x = _np.asarray(x)
    if x.dtype != object:
        return _fftpack.dst(x, type=type, **kw)
    if x.ndim == 2 and kw.get('axis', -1) in (-1, 1):
        kw2 = {k_: v_ for k_, v_ in kw.items() if k_ not in ('axis', 'overwrite_x')}
        return _np.stack([dst(_np.array([row[i] for i in range(len(row))], dtype=object), type=type, **kw2) for row in x])
    if x.ndim == 2 and kw.get('axis') == 0:
        kw2 = {k_: v_ for k_, v_ in kw.items() if k_ not in ('axis', 'overwrite_x')}
        return _np.stack([dst(_np.array([x[i, j] for i in range(x.shape[0])], dtype=object), type=type, **kw2) for j in range(x.shape[1])], axis=1)
    n_ = kw.get('n')
    if n_ is not None and n_ != len(x):
        # scipy: the input is truncated or zero-padded to length n before the transform
        if kw.get('overwrite_x'):
            kw = dict(kw); kw['overwrite_x'] = False
        xp = _np.empty(n_, dtype=object)
        for i in range(n_):
            xp[i] = x[i] if i < len(x) else 0.0
        x = xp
    N = len(x)
    out = _np.empty(N, dtype=object)
    if type == 2:
        for k in range(N):
            acc = SR(ZERO)
            for n in range(N):
                acc = acc + x[n] * _sin_weight((k + 1) * (2 * n + 1), 2 * N)
            out[k] = acc * 2
    elif type == 3:
        for k in range(N):
            acc = SR.lift(x[N - 1]) * ((-1) ** k)
            for n in range(N - 1):
                acc = acc + x[n] * _sin_weight((n + 1) * (2 * k + 1), 2 * N) * 2
            out[k] = acc
    else:
        raise NotEncodable('dst type %r' % type)
    if kw.get('overwrite_x'):
        # scipy: "the contents of x can be destroyed" - in practice the result is written into x and
        # x's memory is returned (float64, contiguous). Modelled as exactly that, so aliasing is visible.
        x[...] = out
        return x
    return out


def _noop(*a, **kw):
    return None


class _Warnings:
    """stand-in for the ``warnings`` module inside pyPRISM modules: formatting/logging is not the subject."""
    warn = staticmethod(_noop)

    def __getattr__(self, k):
        import warnings as _w
        return getattr(_w, k)


PATCHED = []


def patch_all(prefix='pyPRISM', extra=None):
    """Install the proxies in every loaded pyPRISM module. ``extra``: {global name: object}."""
    extra = extra or {}
    for k, m in list(sys.modules.items()):
        if m is None or not (k == prefix or k.startswith(prefix + '.')):
            continue
        d = m.__dict__
        if 'np' in d and d['np'] is _np:
            d['np'] = np; PATCHED.append((k, 'np'))
        if 'dst' in d and d['dst'] is _fftpack.dst:
            d['dst'] = dst; PATCHED.append((k, 'dst'))
        if 'warnings' in d and getattr(d['warnings'], '__name__', '') == 'warnings':
            d['warnings'] = _Warnings(); PATCHED.append((k, 'warnings'))
        for name, obj in extra.items():
            if name in d:
                d[name] = obj; PATCHED.append((k, name))


def stub_differentials(seed=0):
    """Run every stub against the real function on concrete data. Returns list of (name, ok, detail)."""
    import random, math
    from . import core
    rnd = random.Random(seed)
    out = []
    stats = dict(queries=0, solver_s=0.0, max_query_s=0.0, forks=0, decisions=0, paths=0)
    c = core.Ctx(stats); core.Ctx.cur = c

    def fl(v, model=None):
        t = z3.simplify(v.term()) if isinstance(v, SR) else None
        if t is None:
            return float(v)
        # substitute algebraic constants numerically
        subs = [(z3.Real(k), z3.RealVal(repr(val))) for k, val in core.CONST_VALUES.items()]
        t = z3.simplify(z3.substitute(t, *subs))
        if z3.is_rational_value(t):
            return float(core.cfrac(t))
        if z3.is_algebraic_value(t):
            return float(core.cfrac(t.approx(20)))
        raise RuntimeError('not a value: %s' % t)
    # dst exact for N=1..4, both types
    worst = 0.0
    for N in (1, 2, 3, 4, 5, 6):
        for ty in (2, 3):
            xs = [rnd.randint(-9, 9) / 4 for _ in range(N)]
            sym = dst(_np.array([SR.lift(v) for v in xs], dtype=object), type=ty)
            ref = _fftpack.dst(_np.array(xs), type=ty)
            worst = max(worst, max(abs(fl(a) - b) for a, b in zip(sym, ref)))
    out.append(('dst exact N<=6 vs scipy.fftpack.dst', worst < 1e-12, worst))
    # the sine-sum definition itself for N up to 64 (floats)
    worst = 0.0
    for N in (5, 8, 13, 64):
        xs = _np.array([rnd.uniform(-1, 1) for _ in range(N)])
        y2 = _np.array([2 * sum(xs[n] * math.sin(math.pi * (k + 1) * (2 * n + 1) / (2 * N)) for n in range(N)) for k in range(N)])
        y3 = _np.array([(-1) ** k * xs[N - 1] + 2 * sum(xs[n] * math.sin(math.pi * (n + 1) * (2 * k + 1) / (2 * N)) for n in range(N - 1)) for k in range(N)])
        worst = max(worst, _np.max(_np.abs(y2 - _fftpack.dst(xs, type=2))), _np.max(_np.abs(y3 - _fftpack.dst(xs, type=3))))
    out.append(('dst sine-sum definition N<=64 vs scipy', worst < 1e-10, float(worst)))
    # inverse
    worst = 0.0
    for n in (1, 2, 3, 4):
        while True:
            M = _np.array([[rnd.randint(-5, 5) for _ in range(n)] for _ in range(n)], dtype=float)
            if abs(_np.linalg.det(M)) > 0.5:
                break
        S = sinv(_np.array([[SR.lift(int(v)) for v in row] for row in M], dtype=object))
        ref = _np.linalg.inv(M)
        worst = max(worst, max(abs(fl(S[i, j]) - ref[i, j]) for i in range(n) for j in range(n)))
    out.append(('linalg.inv adjugate vs numpy', worst < 1e-12, worst))
    # polyfit / poly1d
    worst = 0.0
    for npts in (3, 4, 5):
        xs = [Fraction(i + 1, 3) for i in range(npts)]
        ys = [Fraction(rnd.randint(-9, 9), 7) for _ in range(npts)]
        cs = np.polyfit(_np.array([SR.lift(v) for v in xs], dtype=object), _np.array([SR.lift(v) for v in ys], dtype=object), 2)
        ref = _np.polyfit([float(v) for v in xs], [float(v) for v in ys], 2)
        worst = max(worst, max(abs(fl(a) - b) for a, b in zip(cs, ref)))
        worst = max(worst, abs(fl(np.poly1d(cs)(SR.lift(0))) - _np.poly1d(ref)(0)))
    out.append(('polyfit/poly1d (normal equations) vs numpy', worst < 1e-9, worst))
    # arange length on concrete rationals passed as SR
    bad = 0
    for _ in range(200):
        a = Fraction(rnd.randint(1, 40), rnd.randint(1, 40)); L = rnd.randint(1, 9)
        sym = np.arange(SR.lift(a), SR.lift(a) * (L + 1), SR.lift(a))
        if len(sym) != L:
            bad += 1
    out.append(('arange stub length == ceil((stop-start)/step) on 200 rational triples', bad == 0, bad))
    # allclose
    bad = 0
    for _ in range(200):
        b = rnd.uniform(-3, 3); a = b + rnd.choice([0, 1e-9, 1e-6, 2e-5, 1e-4, -3e-5]) * rnd.uniform(0.5, 2)
        got = np.allclose(_np.array([SR.lift(Fraction(a))], dtype=object), _np.array([SR.lift(Fraction(b))], dtype=object))
        if got != bool(_np.allclose([a], [b])):
            bad += 1
    out.append(('allclose stub vs numpy.allclose on 200 pairs', bad == 0, bad))
    core.Ctx.cur = None
    return out
