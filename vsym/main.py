"""Driver / worker / replay entry point.

  python -m vsym.main C09 [--tier quick|thorough] [--only SUBSTR] [--jobs N]
  python -m vsym.main C09 --replay replays/<file>.json
"""
import re, sys, os, json, time, argparse, importlib, subprocess, tempfile, traceback, hashlib, inspect, fnmatch, glob
import warnings

VERIF = os.path.dirname(os.path.dirname(os.path.abspath(__file__)))
REPO = os.environ.get('VERIF_REPO', '/repo')
OUT = os.environ.get('VERIF_OUT', VERIF)      # evidence/ and replays/ go here (scratch dir for runs against seeded copies)
if VERIF not in sys.path:
    sys.path.insert(0, VERIF)
if REPO not in sys.path:
    sys.path.insert(0, REPO)
os.environ.setdefault('PYPRISM_VERIF', '1')

EXIT_OK, EXIT_VIOLATION, EXIT_INCONCLUSIVE, EXIT_HARNESS = 0, 1, 2, 3


def load_harness(prop):
    return importlib.import_module('harness.%s' % prop)


# ----------------------------------------------------------------------------- replay (concrete, unpatched)

def run_concrete(prop, inst, values):
    from vsym.env import Env, ReplayPreconditionFailed
    warnings.simplefilter('ignore')
    H = load_harness(prop)
    E = Env('conc', prop, inst, values=values)
    fn = getattr(H, inst['fn'])
    exc = None
    try:
        fn(E, **inst.get('args', {}))
    except ReplayPreconditionFailed as e:
        return dict(reproduced=False, failed=[], exc='precondition: %s' % e, passed=len(E.passed))
    except Exception as e:
        exc = '%s: %s' % (type(e).__name__, str(e)[:300])
        tb = traceback.extract_tb(e.__traceback__)
        where = [f for f in tb if '/pyPRISM/' in f.filename]
        site = '%s:%d' % (os.path.relpath(where[-1].filename, REPO), where[-1].lineno) if where else 'harness'
        E.failed.append('uncaught:%s@%s' % (type(e).__name__, site))
    return dict(reproduced=bool(E.failed), failed=E.failed, exc=exc, passed=len(E.passed))


def cmd_replay(prop, path, as_json):
    spec = json.load(open(path))
    res = run_concrete(spec['property'], spec['instance'], spec['values'])
    if as_json:
        print(json.dumps(res))
    else:
        print('replay %s: instance %s' % (path, spec['instance'].get('name')))
        print('  inputs:', json.dumps(spec['values']))
        print('  claims that held: %d ; claims that FAILED on the real code: %s' % (res['passed'], res['failed']))
        if res['exc']:
            print('  exception:', res['exc'])
        print('REPRODUCED' if res['reproduced'] else 'not reproduced')
    return EXIT_VIOLATION if res['reproduced'] else EXIT_OK


# ----------------------------------------------------------------------------- worker (one instance, symbolic)

def cmd_worker(prop, inst, out, seed, tier):
    if isinstance(inst, list):
        import pyPRISM  # noqa
        res = []
        for k, one in enumerate(inst):
            cmd_worker(prop, one, out + '.part', seed, tier)
            res.append(json.load(open(out + '.part')))
            os.unlink(out + '.part')
            with open(out, 'w') as f:
                json.dump(res, f)
        return 0
    warnings.simplefilter('ignore')
    import z3
    from vsym import core, npx
    from vsym.env import Env
    t0 = time.time()
    H = load_harness(prop)
    import pyPRISM  # noqa  (loads every module so that patch_all sees them)
    extra = getattr(H, 'PATCH_EXTRA', None)
    npx.patch_all(extra=extra(inst) if callable(extra) else extra)
    npx.DST_MODE = inst.get('dst_mode', 'exact')
    E = Env('sym', prop, inst, seed=seed, timeout_ms=int(inst.get('query_timeout_ms', 60000)))
    fn = getattr(H, inst['fn'])
    funcs = {}

    def prof(frame, event, arg):
        if event == 'call':
            co = frame.f_code
            fnm = co.co_filename
            if fnm.startswith(REPO + '/pyPRISM') and '/test/' not in fnm:
                k = (fnm, co.co_firstlineno, co.co_qualname)
                if k not in funcs:
                    funcs[k] = co
    status = 'ok'; err = None
    sys.setprofile(prof)
    try:
        def body(ctx):
            E.begin_path(ctx)
            ctx.exp_underflow = bool(inst.get('exp_underflow', False))
            ctx.sin_exact = inst.get('sin_exact', 0)
            return fn(E, **inst.get('args', {}))
        for ctx, (kind, val) in core.explore(body, E.stats, max_paths=int(inst.get('max_paths', 512))):
            if kind == 'exc':
                e = val
                if isinstance(e, (core.NotEncodable, core.Realised)):
                    # the code left the encodable fragment on this path (e.g. it now forces floats). Before giving up,
                    # run this instance concretely on its default inputs, unpatched: a claim failing there is a
                    # reproduced violation; otherwise the path stays a harness error (never a pass)
                    tbk = traceback.extract_tb(e.__traceback__)
                    wh = [f for f in tbk if '/pyPRISM/' in f.filename]
                    site = '%s:%d' % (os.path.relpath(wh[-1].filename, REPO), wh[-1].lineno) if wh else 'harness'
                    p = E._replay('not-encodable@' + site, {})
                    if p:
                        E.results.append(dict(key=E.last_replay_key, verdict='violation', s=0, path='', canary=False, replay=p,
                                              detail='symbolic execution left the encodable fragment (%s); the concrete run on default inputs fails' % e))
                        continue
                    status = 'harness-error'; err = '%s: %s' % (type(e).__name__, e)
                    E.results.append(dict(key='encodable', verdict='not-encodable', s=0, path='', canary=False, detail=err + ' @' + site))
                    continue
                # an exception escaping the harness on a feasible path: candidate violation
                tb = traceback.extract_tb(e.__traceback__)
                where = [f for f in tb if '/pyPRISM/' in f.filename]
                site = '%s:%d' % (os.path.relpath(where[-1].filename, REPO), where[-1].lineno) if where else 'harness'
                key = 'uncaught:%s@%s' % (type(e).__name__, site)
                detail = ''.join(traceback.format_exception(type(e), e, e.__traceback__))[-1500:]
                if key in E.violated_keys:
                    continue
                r, sv = ctx.check(z3.BoolVal(True))
                rec = dict(key=key, verdict='unknown', s=0, path='', canary=False, detail=detail)
                if r == 'sat':
                    p = E._find_cex(key, ctx.base(), z3.BoolVal(False), None, sv.model(), ctx)
                    if p:
                        rec['verdict'] = 'violation'; rec['replay'] = p; E.violated_keys.add(key)
                    else:
                        rec['verdict'] = 'sat-not-reproduced'
                E.results.append(rec)
    except RuntimeError as e:
        status = 'harness-error'; err = 'RuntimeError: %s' % e
    except Exception as e:
        status = 'harness-error'; err = ''.join(traceback.format_exception(type(e), e, e.__traceback__))[-3000:]
    finally:
        sys.setprofile(None)
    fl = []
    for (fnm, ln, qn), co in sorted(funcs.items()):
        try:
            src = ''.join(inspect.getsourcelines(co)[0])
        except Exception:
            src = ''
        fl.append(dict(function='%s:%s' % (os.path.relpath(fnm, REPO), qn), sha256=hashlib.sha256(src.encode()).hexdigest()[:16]))
    res = dict(instance=inst, status=status, error=err, results=[{k: v for k, v in r.items() if k != 'smt2'} for r in E.results],
               smt2=[r['smt2'] for r in E.results if r.get('smt2')][:3],
               stats=E.stats, violations=E.violations, notes=E.notes, functions=fl,
               canary_expected=E.canary_expected, canary_caught=E.canary_caught, reach=E.reach_checked,
               replays=E.replays_run, wall_s=round(time.time() - t0, 2))
    with open(out, 'w') as f:
        json.dump(res, f)
    return 0


# ----------------------------------------------------------------------------- driver

def load_known():
    p = os.path.join(VERIF, 'known_findings.json')
    if not os.path.exists(p):
        return []
    return json.load(open(p))


def run_batch(prop, insts, seed, tier, default_timeout):
    """several instances in one worker process (saves interpreter start-up); falls back to per-instance
    bookkeeping when the process dies or times out"""
    if len(insts) == 1:
        return [run_instance(prop, insts[0], seed, tier, default_timeout)]
    fd, out = tempfile.mkstemp(prefix='vsym-', suffix='.json', dir=os.environ.get('TMPDIR', '/tmp'))
    os.close(fd); os.unlink(out)
    cmd = [sys.executable, '-m', 'vsym.main', prop, '--worker', json.dumps(insts), '--out', out, '--seed', str(seed), '--tier', tier]
    to = sum(i.get('timeout', default_timeout) for i in insts)
    done = []
    try:
        subprocess.run(cmd, cwd=VERIF, capture_output=True, text=True, timeout=to, env=dict(os.environ))
    except subprocess.TimeoutExpired:
        pass
    try:
        if os.path.exists(out):
            done = json.load(open(out))
    except Exception:
        done = []
    finally:
        for f in (out, out + '.part'):
            if os.path.exists(f):
                os.unlink(f)
    res = list(done)
    for i in insts[len(done):]:          # not reached (crash/timeout inside the batch): run alone
        res.append(run_instance(prop, i, seed, tier, default_timeout))
    return res


def run_instance(prop, inst, seed, tier, default_timeout):
    fd, out = tempfile.mkstemp(prefix='vsym-', suffix='.json', dir=os.environ.get('TMPDIR', '/tmp'))
    os.close(fd)
    os.unlink(out)
    cmd = [sys.executable, '-m', 'vsym.main', prop, '--worker', json.dumps(inst), '--out', out, '--seed', str(seed), '--tier', tier]
    t0 = time.time()
    to = inst.get('timeout', default_timeout)
    env = dict(os.environ)
    try:
        p = subprocess.run(cmd, cwd=VERIF, capture_output=True, text=True, timeout=to, env=env)
        if os.path.exists(out):
            res = json.load(open(out))
        else:
            res = dict(instance=inst, status='harness-error', error='worker died rc=%s: %s' % (p.returncode, (p.stderr or '')[-2000:]), results=[],
                       stats={}, violations=[], notes=[], functions=[], wall_s=round(time.time() - t0, 2))
    except subprocess.TimeoutExpired:
        res = dict(instance=inst, status='timeout', error='instance exceeded %ss' % to, results=[], stats={}, violations=[], notes=[],
                   functions=[], wall_s=round(time.time() - t0, 2))
    finally:
        if os.path.exists(out):
            os.unlink(out)
    return res


def second_solver(smt2_list, cap_s=30):
    """re-check exported unsat queries with another solver; returns (agree, unknown, disagree)."""
    agree = unknown = disagree = 0
    for s in smt2_list:
        with tempfile.NamedTemporaryFile('w', suffix='.smt2', delete=False) as f:
            f.write(s)
            name = f.name
        try:
            for binary in (['cvc5', '--tlimit=%d' % (cap_s * 1000)], ['/usr/bin/z3', '-T:%d' % cap_s]):
                try:
                    p = subprocess.run(binary + [name], capture_output=True, text=True, timeout=cap_s + 10)
                except Exception:
                    continue
                o = (p.stdout or '').strip().splitlines()
                if '(error' in (p.stdout or ''):
                    continue
                if o and o[0] == 'unsat':
                    agree += 1; break
                if o and o[0] == 'sat':
                    disagree += 1; break
            else:
                unknown += 1
        finally:
            os.unlink(name)
    return agree, unknown, disagree


def cmd_driver(prop, tier, only, jobs, seed):
    from concurrent.futures import ThreadPoolExecutor
    t0 = time.time()
    H = load_harness(prop)
    insts = H.instances(tier)
    if only:
        insts = [i for i in insts if only in i['name']]
    for old in glob.glob(os.path.join(OUT, 'replays', '%s-*.json' % prop)):
        os.unlink(old)
    default_timeout = getattr(H, 'TIMEOUT', {}).get(tier, 300 if tier == 'quick' else 1800)
    if tier == 'thorough':
        os.environ['VERIF_EXPORT_SMT2'] = '1'
    # trusted-base validation: stub differentials (concrete) on every run
    from vsym import npx
    diffs = npx.stub_differentials(seed)
    extra_diff = getattr(H, 'differentials', None)
    if extra_diff:
        diffs += extra_diff(seed)
    harness_errors = [d for d in diffs if not d[1]]
    B = int(getattr(H, 'BATCH', 1))
    if B > 1:
        B = max(1, min(B, -(-len(insts) // jobs)))
    batches = [insts[i:i + B] for i in range(0, len(insts), B)]
    with ThreadPoolExecutor(max_workers=jobs) as ex:
        results = [r for rs in ex.map(lambda b: run_batch(prop, b, seed, tier, default_timeout), batches) for r in rs]
    known = [k for k in load_known() if k['property'] == prop]
    obligations = discharged = inconclusive = canaries = canaries_ok = 0
    states = transitions = queries = replays = reach = 0
    solver_s = max_q = 0.0
    samples = []; funcs = {}; violations = []; known_hits = []; errors = []; notes = []
    smt2 = []
    for r in results:
        st = r.get('stats') or {}
        states += st.get('paths', 0); transitions += st.get('decisions', 0); queries += st.get('queries', 0)
        solver_s += st.get('solver_s', 0.0); max_q = max(max_q, st.get('max_query_s', 0.0))
        replays += r.get('replays', 0); reach += r.get('reach', 0)
        canaries += r.get('canary_expected', 0); canaries_ok += r.get('canary_caught', 0)
        smt2 += r.get('smt2', [])
        for f in r.get('functions', []):
            funcs[f['function']] = f['sha256']
        name = r['instance']['name']
        if r['status'] == 'timeout':
            inconclusive += 1; obligations += 1
            errors.append(('inconclusive', name, r['error']))
        elif r['status'] != 'ok':
            errors.append(('harness', name, r['error']))
        for o in r.get('results', []):
            if o.get('canary'):
                if not o['verdict'].startswith('canary-refuted'):
                    errors.append(('harness', name, 'canary %s not refuted: %s' % (o['key'], o['verdict'])))
                continue
            obligations += 1
            v = o['verdict']
            full = '%s:%s' % (name, o['key'])
            if v == 'holds':
                discharged += 1
            elif v == 'violation':
                kf = [k for k in known if k.get('status') == 'known' and re.fullmatch(k['key'], full)]
                if kf:
                    known_hits.append((kf[0], full, o.get('replay')))
                    discharged += 1      # decided (as a listed finding), not counted as held
                else:
                    violations.append((full, o.get('replay')))
            elif v == 'not-searched':
                discharged += 0      # listed only: the instance already reported replayed violations
            elif v == 'unknown':
                inconclusive += 1
                errors.append(('inconclusive', name, 'obligation %s: solver unknown' % o['key']))
            elif v == 'sat-not-reproduced':
                errors.append(('harness', name, 'obligation %s: solver model did not reproduce on the real code (%s)' % (o['key'], (o.get('detail') or '')[-400:])))
            elif v.startswith('vacuous'):
                errors.append(('harness', name, 'vacuous path: %s' % o['key']))
            elif v == 'not-encodable':
                errors.append(('harness', name, o.get('detail')))
            if len(samples) < 6 and v in ('holds', 'violation'):
                samples.append(dict(instance=name, obligation=o['key'], path=o.get('path', ''), verdict=v, solver_s=o.get('s')))
        notes += ['%s: %s' % (name, n) for n in r.get('notes', [])][:5]
    for d in harness_errors:
        errors.append(('harness', 'stub-differential', '%s -> %r' % (d[0], d[2])))
    ss = (0, 0, 0)
    if tier == 'thorough' and smt2:
        ss = second_solver(smt2[:40])
        if ss[2]:
            errors.append(('harness', 'second-solver', '%d exported unsat queries answered sat by the second solver' % ss[2]))
    wall = time.time() - t0
    seen = set()
    for k, full, rp in known_hits:
        if k['key'] in seen:
            continue
        seen.add(k['key'])
        print('KNOWN-FINDING: property=%s %s [%s]' % (prop, k['what'], k['key']))
    # known findings that are listed but no longer observed are reported (informational)
    for k in known:
        if k.get('status') == 'known' and k['key'] not in seen and not only:
            print('note: known finding %s not observed in this run (tier=%s)' % (k['key'], tier))
    ev = dict(property_id=prop, tier=tier, seed=seed, level='model_checking', wall_s=round(wall, 2), violations=len(violations),
              coverage=dict(states=max(states, 1), transitions=max(transitions, 1),
                            traces_validated_against_impl=len(diffs) + replays + canaries_ok,
                            samples=samples or [dict(note='no obligations ran')],
                            obligations=obligations, discharged=discharged, inconclusive=inconclusive,
                            instances=len(insts), instance_names=[i['name'] for i in insts],
                            slowest_instances=sorted([(r.get('wall_s', 0), r['instance']['name']) for r in results], reverse=True)[:5],
                            canaries_expected=canaries, canaries_refuted=canaries_ok, reachability_witnesses=reach,
                            counterexample_replays=replays, stub_differentials=[dict(name=d[0], ok=bool(d[1])) for d in diffs],
                            functions_encoded=[dict(function=k, sha256=v) for k, v in sorted(funcs.items())],
                            bounds=getattr(H, 'BOUNDS', {}).get(tier, getattr(H, 'BOUNDS', {})),
                            outside=getattr(H, 'OUTSIDE', []),
                            solver=dict(engine='z3 %s (python API), nlsat for QF_NRA' % _z3v(), queries=queries, solver_s=round(solver_s, 2),
                                        max_query_s=round(max_q, 2),
                                        second_solver=dict(agree=ss[0], unknown=ss[1], disagree=ss[2]) if tier == 'thorough' else None),
                            known_findings=[dict(key=k['key'], what=k['what'], observed_at=full) for k, full, rp in known_hits],
                            violations=[dict(obligation=f, replay=rp) for f, rp in violations],
                            errors=[dict(kind=a, where=b, what=(c or '')[-600:]) for a, b, c in errors],
                            notes=notes[:20],
                            exhaustive=False),
              assumptions=list(getattr(H, 'ASSUMPTIONS', [])) + COMMON_ASSUMPTIONS)
    os.makedirs(os.path.join(OUT, 'evidence'), exist_ok=True)
    with open(os.path.join(OUT, 'evidence', '%s.json' % prop), 'w') as f:
        json.dump(ev, f, indent=1)
    print('%s tier=%s instances=%d paths=%d obligations=%d discharged=%d inconclusive=%d violations=%d known=%d queries=%d solver=%.1fs wall=%.1fs'
          % (prop, tier, len(insts), states, obligations, discharged, inconclusive, len(violations), len(seen), queries, solver_s, wall))
    for f, rp in violations:
        print('VIOLATION property=%s replay=%s' % (prop, rp))
        print('  obligation: %s' % f)
    if violations:
        return EXIT_VIOLATION
    he = [e for e in errors if e[0] == 'harness']
    if he:
        for e in he[:10]:
            print('HARNESS-ERROR %s: %s' % (e[1], (e[2] or '')[-800:]))
        return EXIT_HARNESS
    if inconclusive:
        for e in errors[:10]:
            print('INCONCLUSIVE %s: %s' % (e[1], e[2]))
        return EXIT_INCONCLUSIVE
    return EXIT_OK


COMMON_ASSUMPTIONS = [
    'Real model: float literals are read as the simplest rational within half an ulp, np.pi as a symbol in (3.14159265358979, 3.14159265358980); rounding error is not modelled',
    'exp/log/sin/cos/sqrt are Ackermannised (fresh variable per distinct argument + functional consistency) with the axioms listed in vsym/core.py',
    'numpy itself (slicing, views, broadcasting, einsum, in-place operators on dtype=object arrays) is executed concretely and trusted',
    'environment stubs (vsym/npx.py): zeros/ones/arange/linalg.inv/polyfit/poly1d/allclose/dst replaced by symbolic versions validated by differential runs each time',
    'a denominator or sqrt/log argument met during execution is assumed non-zero / in the domain (side condition) unless the obligation is about it',
    'counterexamples are reported only after a concrete replay on the unpatched code reproduces a failing claim',
]


def _z3v():
    import z3
    return z3.get_version_string()


def main(argv=None):
    ap = argparse.ArgumentParser()
    ap.add_argument('prop')
    ap.add_argument('--tier', default=os.environ.get('VERIF_TIER', 'quick'))
    ap.add_argument('--replay')
    ap.add_argument('--json', action='store_true')
    ap.add_argument('--worker')
    ap.add_argument('--out')
    ap.add_argument('--only')
    ap.add_argument('--jobs', type=int, default=int(os.environ.get('VERIF_JOBS', '16')))
    ap.add_argument('--seed', type=int, default=int(os.environ.get('VERIF_SEED', '0') or 0))
    a = ap.parse_args(argv)
    if a.replay:
        Hm = load_harness(a.prop)
        if hasattr(Hm, 'cmd_replay'):
            return Hm.cmd_replay(a.replay, a.json)
        return cmd_replay(a.prop, a.replay, a.json)
    if a.worker:
        return cmd_worker(a.prop, json.loads(a.worker), a.out, a.seed, a.tier)
    H = load_harness(a.prop)
    if hasattr(H, 'driver'):
        return H.driver(a.tier, a.only, a.jobs, a.seed)
    return cmd_driver(a.prop, a.tier, a.only, a.jobs, a.seed)


if __name__ == '__main__':
    sys.exit(main())
