"""Harness environment: inputs, assumptions and claims, in symbolic or concrete (replay) mode."""
import z3, numpy as _np, math, time, json, os, sys, random, subprocess, hashlib, traceback, fractions, re
from . import core
from .core import SR, SB, Ctx, rv, eqc, Fraction

VERIF = os.path.dirname(os.path.dirname(os.path.abspath(__file__)))
OUT = os.environ.get('VERIF_OUT', VERIF)


def _f(x):
    return float(x)


class Env:
    def __init__(self, mode, prop, inst, values=None, seed=0, timeout_ms=60000, stats=None):
        self.mode = mode            # 'sym' | 'conc'
        self.prop = prop
        self.inst = inst            # instance descriptor (dict, JSON-able)
        self.values = values or {}
        self.seed = seed
        self.timeout_ms = timeout_ms
        self.stats = stats if stats is not None else dict(queries=0, solver_s=0.0, max_query_s=0.0, forks=0,
                                                           decisions=0, paths=0)
        self.inputs = {}            # name -> (z3 var, kind)   (sym mode, current path)
        self.results = []           # obligations: dict(key, verdict, s, path)
        self.failed = []            # conc mode: keys of failed claims
        self.passed = []            # conc mode: keys of claims that held
        self.violations = []        # confirmed (replayed) violations
        self.violated_keys = set()
        self.cache = {}
        self.rtol = 1e-6
        self.atol = 1e-9
        self.notes = []
        self.canary_expected = 0
        self.canary_caught = 0
        self.reach_checked = 0
        self.replays_run = 0
        self.box = 16
        self.ladder = True
        self.exc_expected = ()
        self.known_patterns = []
        try:
            kf = json.load(open(os.path.join(VERIF, 'known_findings.json')))
            self.known_patterns = [k['key'] for k in kf if k.get('property') == prop and k.get('status') == 'known']
        except Exception:
            pass

    def _new_violations(self):
        return len([v for v in self.violations if not v.get('known')])

    # ------------------------------------------------------------------ inputs
    @property
    def sym(self):
        return self.mode == 'sym'

    def begin_path(self, ctx):
        self.ctx = ctx
        self.inputs = {}

    def real(self, name, pos=False, lo=None, hi=None, nonzero=False, default=1.0):
        if self.sym:
            v = z3.Real(name)
            self.inputs[name] = v
            c = self.ctx
            if pos:
                c.assumes.append(v > 0)
            if lo is not None:
                c.assumes.append(v >= rv(lo))
            if hi is not None:
                c.assumes.append(v <= rv(hi))
            if nonzero:
                c.assumes.append(v != 0)
            return SR(v)
        if name in self.values:
            return float(Fraction(self.values[name]))
        return float(default)

    def arr(self, name, shape, **kw):
        if isinstance(shape, int):
            shape = (shape,)
        if self.sym:
            a = _np.empty(shape, dtype=object)
        else:
            a = _np.empty(shape, dtype=float)
        for idx in _np.ndindex(*shape):
            a[idx] = self.real(name + '_' + '_'.join(map(str, idx)), **kw)
        return a

    def lookup(self, name, default=1.0):
        """an input created earlier on this path (e.g. by a HavocU object inside the code under test)"""
        if self.sym:
            return SR(self.inputs[name])
        return float(Fraction(self.values[name])) if name in self.values else float(default)

    def const(self, x):
        """a literal that should be SR in sym mode and float in conc mode"""
        return SR.lift(x) if self.sym else float(x)

    def pi(self):
        return core.pi_sym() if self.sym else math.pi

    # ------------------------------------------------------------------ elementary functions for oracles
    def _fn(self, name, x):
        if isinstance(x, SR):
            return getattr(x, name)()
        if isinstance(x, _np.ndarray):
            out = _np.empty(x.shape, dtype=x.dtype)
            for idx in _np.ndindex(*x.shape):
                out[idx] = self._fn(name, x[idx])
            return out
        if self.sym:
            return getattr(SR.lift(x), name)()
        return getattr(math, name)(x)

    def exp(self, x):
        if not self.sym and not isinstance(x, _np.ndarray):
            try:
                return math.exp(x)
            except OverflowError:
                return math.inf
        return self._fn('exp', x)

    def log(self, x):
        if not self.sym and not isinstance(x, _np.ndarray) and not (x > 0):
            raise ReplayPreconditionFailed('log of a non-positive value (side condition of the symbolic run)')
        return self._fn('log', x)

    def sin(self, x):
        return self._fn('sin', x)

    def cos(self, x):
        return self._fn('cos', x)

    def sqrt(self, x):
        if not self.sym and not isinstance(x, _np.ndarray) and not (x >= 0):
            raise ReplayPreconditionFailed('sqrt of a negative value (side condition of the symbolic run)')
        return self._fn('sqrt', x)

    def sinpi(self, num, den):
        """sin(pi*num/den): exact algebraic value (sym) / math.sin (conc)"""
        if self.sym:
            return core.sinpi(num, den)
        return math.sin(math.pi * num / den)

    # ------------------------------------------------------------------ assumptions
    def assume(self, cond):
        if self.sym:
            e = cond.e if isinstance(cond, SB) else z3.BoolVal(bool(cond))
            self.ctx.assumes.append(e)
            # an assumption contradicting the path so far ends the path
            if z3.is_false(z3.simplify(e)):
                raise core.Infeasible()
        else:
            if not bool(cond):
                raise ReplayPreconditionFailed('assumption violated in replay')

    # ------------------------------------------------------------------ comparisons usable in both modes
    def eq(self, a, b, rtol=None, atol=None):
        if self.sym:
            return SB(eqc(a, b))
        a = _f(a); b = _f(b)
        if math.isnan(a) or math.isnan(b):
            return False
        if a == b:
            return True
        return abs(a - b) <= (atol or self.atol) + (rtol or self.rtol) * max(abs(a), abs(b))

    def le(self, a, b):
        if self.sym:
            return SR.lift(a) <= SR.lift(b)
        return _f(a) <= _f(b) + 1e-12 * max(abs(_f(a)), abs(_f(b)))

    def band(self, *conds):
        if self.sym:
            return SB(z3.And(*[SB._e(c) for c in conds]))
        return all(bool(c) for c in conds)

    def bor(self, *conds):
        if self.sym:
            return SB(z3.Or(*[SB._e(c) for c in conds]))
        return any(bool(c) for c in conds)

    def bnot(self, c):
        if self.sym:
            return SB(z3.Not(SB._e(c)))
        return not bool(c)

    def implies(self, a, b):
        return self.bor(self.bnot(a), b)

    # ------------------------------------------------------------------ claims
    def mark(self):
        return len(self.ctx.pc) if self.sym else 0

    def _export(self, sv):
        """thorough tier: the first few discharged queries of an instance are exported as SMT-LIB2 for the second solver"""
        if not os.environ.get('VERIF_EXPORT_SMT2') or getattr(self, '_exported', 0) >= 3:
            return None
        self._exported = getattr(self, '_exported', 0) + 1
        try:
            return sv.to_smt2()
        except Exception:
            return None

    def _abstract_query(self, ctx, pc, e, srs, lemmas=None, light=False):
        """generalise the query: the listed intermediate results (SR objects) are replaced by fresh variables
        (numerator and denominator separately, denominator != 0) in the claim, the assumptions, the path condition
        and the axioms; definedness side conditions are dropped. Every step only
        weakens the hypotheses, so `unsat` here implies the original obligation."""
        subs = []; facts = []
        seen = set()
        for k, s in enumerate(srs):
            for part in ('n', 'd'):
                t = getattr(s, part)
                if z3.is_rational_value(t) or (z3.is_const(t) and t.decl().kind() == z3.Z3_OP_UNINTERPRETED) or t.get_id() in seen:
                    continue
                seen.add(t.get_id())
                v = z3.Real('abs!%d%s' % (k, part))
                subs.append((t, v))
                if part == 'd':
                    facts.append(v != 0)
        if not subs:
            return None
        if light:
            ax = [f for f in ctx.axioms if not _mentions_prefix(f, ('exp!', 'log!', 'sin!', 'cos!', 'sqrt!'))]
        else:
            ax = ctx.axioms
        base = [z3.substitute(f, *subs) for f in (ctx.assumes + pc + ax)] + facts
        # lemmas: equalities between intermediates that the harness has claimed separately (each is its own
        # obligation); they are the only facts about the abstracted terms that survive the abstraction
        for a, b in (lemmas or []):
            base.append(z3.substitute(eqc(a, b), *subs))
        return base, z3.substitute(e, *subs)

    def claim(self, key, cond, robust=None, under=None, canary=False, timeout_ms=None, abstract=None, lemmas=None):
        """The code satisfies ``cond`` on this path for every value of the inputs.
        key identifies the obligation (and the known-finding entry, if any).
        canary=True: ``cond`` is deliberately wrong and MUST be refuted (vacuity / sat-side guard)."""
        if not self.sym:
            if canary:
                return
            ok = bool(cond)
            (self.passed if ok else self.failed).append(key)
            return
        if key in self.violated_keys and not canary:
            return
        if self._new_violations() >= 3 and not canary:
            # this instance already has three replayed violations (not counting listed known findings): further obligations are listed, not decided
            self.results.append(dict(key=key, verdict='not-searched', s=0, path='', canary=False))
            return
        ctx = self.ctx
        e = SB._e(cond)
        if not canary:
            es = z3.simplify(e)
            if z3.is_true(es):
                # syntactically valid (e.g. both sides are the same term): no solver call needed
                self.stats['trivial'] = self.stats.get('trivial', 0) + 1
                self.results.append(dict(key=key, verdict='holds', s=0.0, path='', canary=False, trivial=True))
                return
        pc = ctx.pc if under is None else ctx.pc[:under]
        base = ctx.assumes + ctx.side + ctx.axioms + pc
        sig = hashlib.sha256(('%s|%s|%s' % (key, z3.And(*base).sexpr() if base else '', e.sexpr())).encode()).hexdigest()
        if sig in self.cache:
            return
        self.cache[sig] = True
        for light in ((True, False) if (abstract and not canary) else ()):
            # stage 1: without the axioms of the Ackermannised functions (cheapest); stage 2: with them
            q = self._abstract_query(ctx, pc, e, abstract, lemmas, light=light)
            if q is not None:
                t0 = time.time()
                sv = z3.Solver(); sv.set('timeout', min(timeout_ms or self.timeout_ms, 15000) if light else (timeout_ms or self.timeout_ms))
                sv.add(*q[0]); sv.add(z3.Not(q[1]))
                r = str(sv.check()); dt = time.time() - t0
                self.stats['queries'] += 1; self.stats['solver_s'] += dt; self.stats['max_query_s'] = max(self.stats['max_query_s'], dt)
                if r == 'unsat':
                    self.stats['abstracted'] = self.stats.get('abstracted', 0) + 1
                    self.results.append(dict(key=key, verdict='holds', s=round(dt, 3), canary=False, abstracted=True, smt2=self._export(sv),
                                             path=''.join('T' if d[0] else 'F' for d in ctx.decisions[:ctx.pos])))
                    return
        if not canary and (ctx.side or ctx.uf):
            # cheapest first: only the input assumptions, the path condition and the defining facts of the algebraic
            # constants (dropping hypotheses is sound for `unsat`); most identities need nothing else
            lb = ctx.assumes + pc + [f for f in ctx.axioms if f.get_id() in ctx.alg_axiom_ids]
            t0 = time.time()
            sv = z3.Solver(); sv.set('timeout', min(timeout_ms or self.timeout_ms, 10000))
            sv.add(*lb); sv.add(z3.Not(e))
            r = str(sv.check()); dt = time.time() - t0
            self.stats['queries'] += 1; self.stats['solver_s'] += dt; self.stats['max_query_s'] = max(self.stats['max_query_s'], dt)
            if r == 'unsat':
                self.stats['light'] = self.stats.get('light', 0) + 1
                self.results.append(dict(key=key, verdict='holds', s=round(dt, 3), canary=False, light=True, smt2=self._export(sv),
                                         path=''.join('T' if d[0] else 'F' for d in ctx.decisions[:ctx.pos])))
                return
        t0 = time.time()
        sv = z3.Solver()
        sv.set('timeout', min(timeout_ms or self.timeout_ms, 8000) if canary else (timeout_ms or self.timeout_ms))
        sv.add(*base)
        sv.add(z3.Not(e))
        r = str(sv.check())
        dt = time.time() - t0
        self.stats['queries'] += 1
        self.stats['solver_s'] += dt
        self.stats['max_query_s'] = max(self.stats['max_query_s'], dt)
        path = ''.join('T' if d[0] else 'F' for d in ctx.decisions[:ctx.pos])
        rec = dict(key=key, verdict=None, s=round(dt, 3), path=path, canary=canary)
        if canary:
            self.canary_expected += 1
            if r != 'sat':
                # sat side of nlsat can be slow on large systems: a counterexample to the (deliberately wrong) canary
                # with all inputs fixed to seeded random rationals is just as good
                rnd = random.Random(self.seed * 31 + 7)
                for _ in range(4):
                    fixed = {n: Fraction(rnd.randint(1, 24), rnd.choice([2, 3, 4, 5, 8])) for n in self.inputs}
                    if self._ladder_query(base, z3.Not(e), fixed, ctx) is not None:
                        r = 'sat'; break
            if r == 'sat':
                self.canary_caught += 1
                rec['verdict'] = 'canary-refuted'
            else:
                rec['verdict'] = 'canary-missed(%s)' % r
            self.results.append(rec)
            return
        if r == 'unsat':
            rec['verdict'] = 'holds'
            rec['smt2'] = None
            if os.environ.get('VERIF_EXPORT_SMT2'):
                rec['smt2'] = sv.to_smt2()
            self.results.append(rec)
            return
        # sat or unknown: look for a replayable counterexample
        model = sv.model() if r == 'sat' else None
        if self._new_violations() >= 3:
            # this instance already has replayed violations: further failing obligations are listed, not searched
            rec['verdict'] = 'not-searched'
            self.results.append(rec)
            return
        confirmed = self._find_cex(key, base, e, robust, model, ctx)
        if confirmed:
            rec['verdict'] = 'violation'
            rec['replay'] = confirmed
            rec['key'] = self.last_replay_key
            self.violated_keys.add(key)
        elif r == 'sat':
            rec['verdict'] = 'sat-not-reproduced'
        else:
            rec['verdict'] = 'unknown'
        self.results.append(rec)

    def claim_eq(self, key, a, b, under=None, per_element=True, timeout_ms=None, abstract=None, lemmas=None):
        """a == b (scalars or arrays of equal shape), one obligation per element."""
        if a is None or b is None:
            # a value that should be there is missing: a structural fact, not arithmetic
            self.claim_true(key, a is None and b is None)
            return
        if isinstance(a, (_np.ndarray, list, tuple)) or isinstance(b, (_np.ndarray, list, tuple)):
            aa = _np.asarray(a); ba = _np.asarray(b)
            if aa.shape != ba.shape:
                self.claim(key + ':shape', False if not self.sym else SB(z3.BoolVal(False)), under=under)
                return
            for idx in _np.ndindex(*aa.shape):
                self.claim_eq('%s[%s]' % (key, ','.join(map(str, idx))), aa[idx], ba[idx], under=under, timeout_ms=timeout_ms, abstract=abstract, lemmas=lemmas)
            return
        if self.sym:
            x = SR.lift(a); y = SR.lift(b)
            if x is None or y is None:
                raise core.NotEncodable('claim_eq on %r / %r' % (type(a), type(b)))
            diff = x.n * y.d - y.n * x.d
            den = x.d * y.d
            robust = diff * diff > rv(Fraction(1, 10 ** 6)) * den * den
            self.claim(key, SB(eqc(x, y)), robust=robust, under=under, timeout_ms=timeout_ms, abstract=abstract, lemmas=lemmas)
        else:
            self.claim(key, self.eq(a, b))

    def claim_true(self, key, flag, under=None):
        """a structural (non-arithmetic) fact observed on this path, e.g. 'is a different object'."""
        if self.sym:
            self.claim(key, SB(z3.BoolVal(bool(flag))), under=under)
        else:
            self.claim(key, bool(flag))

    def expect_raises(self, key, exc_types, fn):
        """fn() must raise one of exc_types. Returns the exception or None."""
        try:
            fn()
        except exc_types as e:
            self.claim_true(key, True)
            return e
        except (core.Infeasible, core.Abort):
            raise
        self.claim_true(key, False)
        return None

    def expect_no_raise(self, key, fn, exc_types=(Exception,)):
        try:
            r = fn()
        except (core.NotEncodable, core.Realised):
            raise
        except exc_types as e:
            self.notes.append('%s raised %s: %s' % (key, type(e).__name__, str(e)[:200]))
            self.claim_true(key, False)
            return None, e
        self.claim_true(key, True)
        return r, None

    def reachable(self, key):
        """vacuity guard: the current path (assumptions+side conditions+axioms+pc) is satisfiable."""
        if not self.sym:
            return
        r, _ = self.ctx.check(z3.BoolVal(True), timeout=self.timeout_ms)
        self.reach_checked += 1
        note = ''
        if r == 'unknown':
            # very large contexts (hundreds of Ackermannised calls): the witness is asked of the input assumptions, the
            # path condition and the side conditions only (the function axioms are consistent by construction: they
            # hold for the real functions)
            sv = z3.Solver(); sv.set('timeout', self.timeout_ms)
            sv.add(*self.ctx.assumes); sv.add(*self.ctx.pc)
            r2 = str(sv.check())
            if r2 == 'sat':
                r = 'sat'; note = ' (witness without function axioms)'
            elif r2 == 'unsat':
                r = 'unsat'
        verdict = 'holds' if r == 'sat' else ('vacuous(unsat)' if r == 'unsat' else 'unknown')
        self.results.append(dict(key=key + ':reachable' + note, verdict=verdict, s=0, path='', canary=False))

    def claim_no_singularity(self, key, since=0, limit=4000):
        """division-by-zero reachability: every division executed since `since` recorded "denominator != 0" as a side
        condition (i.e. it was ASSUMED). Here each of them is turned into an obligation under the input assumptions and the
        path condition only; a denominator that can vanish yields a model that is replayed on the real code."""
        if not self.sym:
            return
        ctx = self.ctx
        conds = []; seen = set()
        for c in ctx.side[since:]:
            if c.get_id() not in seen:
                seen.add(c.get_id()); conds.append(c)
        sv = z3.Solver(); sv.set('timeout', 20000); sv.add(*ctx.assumes); sv.add(*ctx.pc); sv.add(*ctx.axioms)
        bad = None; unknown = 0
        for c in conds[:limit]:
            sv.push(); sv.add(z3.Not(c)); r = str(sv.check()); sv.pop()
            self.stats['queries'] += 1
            if r == 'sat':
                bad = c; break
            if r != 'unsat':
                unknown += 1
        saved = (ctx.side, ctx.axioms)
        ctx.side = []
        try:
            if bad is not None:
                self.claim(key, SB(bad))
            elif unknown:
                self.results.append(dict(key=key, verdict='unknown', s=0, path='', canary=False))
            else:
                self.claim_true(key, True)
        finally:
            ctx.side, ctx.axioms = saved
        self.notes.append('%s: %d denominators examined' % (key, min(len(conds), limit)))

    def can_be_zero(self, key, expr, extra=None):
        """division-by-zero reachability: may expr vanish under the precondition? claim: it may not."""
        if self.sym:
            x = SR.lift(expr)
            self.claim(key, SB(x.n != 0))
        else:
            v = _f(expr)
            self.claim(key, v != 0 and math.isfinite(v))

    # ------------------------------------------------------------------ counterexample search + replay
    def _model_values(self, model, ctx, fixed=None):
        vals = {}
        for name, v in self.inputs.items():
            if fixed and name in fixed:
                vals[name] = str(fixed[name]); continue
            mv = model.eval(v, model_completion=True)
            if z3.is_rational_value(mv):
                vals[name] = str(core.cfrac(mv))
            elif z3.is_algebraic_value(mv):
                vals[name] = str(core.cfrac(mv.approx(30)))
            else:
                vals[name] = '1'
        return vals

    def _replay(self, key, vals):
        """run this harness instance concretely, unpatched, in a fresh process; True if a claim fails there."""
        os.makedirs(os.path.join(OUT, 'replays'), exist_ok=True)
        spec = dict(property=self.prop, instance=self.inst, key=key, values=vals)
        h = hashlib.sha256(json.dumps(spec, sort_keys=True).encode()).hexdigest()[:10]
        path = os.path.join(OUT, 'replays', '%s-%s-%s.json' % (self.prop, self.inst.get('name', 'x').replace('/', '_'), h))
        with open(path, 'w') as f:
            json.dump(spec, f, indent=1, sort_keys=True)
        self.replays_run += 1
        try:
            out = subprocess.run([sys.executable, '-m', 'vsym.main', self.prop, '--replay', path, '--json'],
                                 cwd=VERIF, capture_output=True, text=True, timeout=300)
            res = json.loads(out.stdout.strip().splitlines()[-1])
        except Exception as e:
            self.notes.append('replay failed to run: %r' % (e,))
            os.unlink(path)
            return None
        failed = res.get('failed', [])
        if res.get('reproduced') and failed:
            if key not in failed and not any(f.split('@')[0] == key.split('@')[0] for f in failed):
                # the model breaks a different obligation of this instance on the real code: report that one
                self.notes.append('replay for %s failed %s instead' % (key, failed[:3]))
                self.last_replay_key = failed[0]
            else:
                self.last_replay_key = key
            full = '%s:%s' % (self.inst.get('name', ''), self.last_replay_key)
            self.violations.append(dict(key=self.last_replay_key, replay=path, failed=failed, exc=res.get('exc'), known=any(re.fullmatch(p_, full) for p_ in self.known_patterns)))
            return path
        os.unlink(path)
        return None

    def _find_cex(self, key, base, e, robust, model, ctx):
        """look for a counterexample that REPRODUCES on the real code. Order: the solver's own model; seeded random
        concretisation of all but k inputs (cheap, the sat side of nlsat is slow on large systems); margin/boxed
        variants of the query."""
        neg = robust if robust is not None else z3.Not(e)
        if model is not None:
            p = self._replay(key, self._model_values(model, ctx))
            if p:
                return p
        if self.ladder:
            rnd = random.Random(self.seed * 7919 + len(self.results))
            names = list(self.inputs)
            for k in (0, 0, 1, 2, 0, 0):
                free = set(rnd.sample(names, min(k, len(names))))
                fixed = {}
                for n in names:
                    if n in free:
                        continue
                    fixed[n] = Fraction(rnd.randint(1, 24), rnd.choice([2, 3, 4, 5, 8])) * rnd.choice([1, 1, 1, -1])
                m = self._ladder_query(base, neg, fixed, ctx)
                if m is None:
                    continue
                p = self._replay(key, self._model_values(m, ctx, fixed=fixed))
                if p:
                    return p
        boxes = []
        for name, v in self.inputs.items():
            boxes += [v <= self.box, v >= -self.box]
        for cons in ([neg] + boxes, [neg]):
            sv = z3.Solver(); sv.set('timeout', min(self.timeout_ms, 20000))
            sv.add(*base); sv.add(*cons)
            t0 = time.time(); r = str(sv.check()); self.stats['queries'] += 1; self.stats['solver_s'] += time.time() - t0
            if r != 'sat':
                continue
            p = self._replay(key, self._model_values(sv.model(), ctx))
            if p:
                return p
        return None

    def _ladder_query(self, base, neg, fixed, ctx):
        subs = [(self.inputs[n], rv(v)) for n, v in fixed.items()]
        # respect sign assumptions: flip negatives when the assumption set says positive
        sv = z3.Solver(); sv.set('timeout', 10000)
        for f in ctx.assumes:
            sv.add(z3.substitute(f, *subs))
        if str(sv.check()) == 'unsat':
            # try all-positive variant
            fixed2 = {n: abs(v) for n, v in fixed.items()}
            fixed.update(fixed2)
            subs = [(self.inputs[n], rv(v)) for n, v in fixed.items()]
        # pin UF values whose argument became constant (dependency order = creation order)
        pinned = {}
        changed = True
        uf_all = [(name, a, v) for name, lst in ctx.uf.items() for a, v in lst]
        rounds = 0
        while changed and rounds < 6:
            changed = False; rounds += 1
            allsubs = subs + [(z3.Real(k), rv(Fraction(val).limit_denominator(10 ** 15))) for k, val in pinned.items()] + \
                [(z3.Real(k), rv(Fraction(val).limit_denominator(10 ** 15))) for k, val in core.CONST_VALUES.items()]
            for name, a, v in uf_all:
                vn = str(v.n)
                if vn in pinned or not z3.is_const(v.n) or z3.is_rational_value(v.n):
                    continue
                t = z3.simplify(z3.substitute(a.term(), *allsubs))
                if z3.is_rational_value(t):
                    x = float(core.cfrac(t))
                    try:
                        val = {'exp': math.exp, 'log': math.log, 'sin': math.sin, 'cos': math.cos, 'sqrt': math.sqrt, 'sinc': (lambda t: 1.0 if t == 0 else math.sin(math.pi * t) / (math.pi * t))}[name](x)
                    except (ValueError, OverflowError):
                        continue
                    pinned[vn] = val; changed = True
        allsubs = subs + [(z3.Real(k), rv(Fraction(val).limit_denominator(10 ** 15))) for k, val in pinned.items()]
        if pinned:
            allsubs += [(z3.Real(k), rv(Fraction(val).limit_denominator(10 ** 15))) for k, val in core.CONST_VALUES.items() if k in ctx.alg]
        sv = z3.Solver(); sv.set('timeout', 15000)
        pinned_vars = set(pinned)
        for f in ctx.assumes + ctx.side + ctx.pc:
            sv.add(z3.substitute(f, *allsubs))
        for f in ctx.axioms:
            if pinned and (_mentions(f, pinned_vars) or _mentions(f, set(core.CONST_VALUES))):
                continue
            sv.add(z3.substitute(f, *allsubs))
        sv.add(z3.substitute(neg, *allsubs))
        t0 = time.time(); r = str(sv.check()); self.stats['queries'] += 1; self.stats['solver_s'] += time.time() - t0
        return sv.model() if r == 'sat' else None


def _mentions_prefix(f, prefixes):
    seen = set(); stack = [f]
    while stack:
        t = stack.pop()
        if t.get_id() in seen:
            continue
        seen.add(t.get_id())
        if z3.is_const(t) and t.decl().kind() == z3.Z3_OP_UNINTERPRETED and str(t).startswith(prefixes):
            return True
        stack.extend(t.children())
    return False


def _mentions(f, names):
    seen = set(); stack = [f]
    while stack:
        t = stack.pop()
        if t.get_id() in seen:
            continue
        seen.add(t.get_id())
        if z3.is_const(t) and t.decl().kind() == z3.Z3_OP_UNINTERPRETED and str(t) in names:
            return True
        stack.extend(t.children())
    return False


class ReplayPreconditionFailed(Exception):
    pass
