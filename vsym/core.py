"""symx core: symbolic execution of real numpy code over SMT reals.

The repository's own functions are *run* on numpy ``dtype=object`` arrays whose elements are
``SR`` scalars carrying z3 Real terms (fraction-free: value = n/d, the solver never sees ``/``).
Comparisons yield ``SB`` whose ``__bool__`` is the fork point of a re-executing DFS.

The same harness code runs in two modes:
  * ``sym``  - inputs are z3 symbols, claims are discharged by the solver (all values in bounds)
  * ``conc`` - inputs are floats taken from a replay file, pyPRISM is *not* patched, claims are
               evaluated numerically with a stated tolerance (replay of a counterexample).
"""
import z3, numpy as _np, fractions, itertools, math, time, hashlib, sys

Fraction = fractions.Fraction
if hasattr(sys, 'set_int_max_str_digits'):
    sys.set_int_max_str_digits(0)


class Infeasible(BaseException):
    pass


class Abort(BaseException):
    """Path ends here on purpose (harness decided it has seen enough)."""


class NotEncodable(Exception):
    pass


class Realised(TypeError):
    """Raised when concrete numpy code tries to turn a symbolic real into a float."""


# --------------------------------------------------------------------------- context

class Ctx:
    """State of one execution path."""
    cur = None

    def __init__(self, stats):
        self.pc = []          # path condition
        self.decisions = []   # [(value, other_branch_pending)]
        self.pos = 0
        self.assumes = []     # harness preconditions
        self.side = []        # definedness side conditions (denominators != 0, sqrt args >= 0)
        self.axioms = []      # facts about Ackermannised functions / algebraic constants
        self.uf = {}          # name -> [(arg SR, value SR)]
        self.alg = {}         # algebraic constants already introduced
        self.stats = stats
        self.fresh = itertools.count()
        self.fp_cache = {}; self.fp_point = {}; self.alg_axiom_ids = set(); self.uf_index = {}
        self.sin_exact = 0           # >0: link sin(t) to exact values for t = pi*p/q <= sin_exact*pi (C07/C08 oracles)
        self.exp_underflow = False   # IEEE fact exp(t)=0 for t<=-746 (switched on by C03 harnesses)
        self.feas_timeout = 30000

    def base(self):
        return self.assumes + self.side + self.axioms + self.pc

    def fingerprint(self, sr):
        """value of n/d at a fixed pseudo-random rational point (a FILTER for candidate-equal arguments of the
        Ackermannised functions; equality itself is always decided by the solver)"""
        key = (sr.n.get_id(), sr.d.get_id())
        if key in self.fp_cache:
            return self.fp_cache[key]
        vals = []
        for t in (sr.n, sr.d):
            seen = set(); stack = [t]; consts = []
            while stack:
                u = stack.pop()
                if u.get_id() in seen:
                    continue
                seen.add(u.get_id())
                if z3.is_const(u) and u.decl().kind() == z3.Z3_OP_UNINTERPRETED:
                    consts.append(u)
                else:
                    stack.extend(u.children())
            subs = []
            for u in consts:
                nm = str(u)
                if nm not in self.fp_point:
                    if nm in CONST_HP:
                        self.fp_point[nm] = z3.RealVal(CONST_HP[nm])          # 40-digit value of PI, SQ2, ...
                    else:
                        h = int(hashlib.sha256(nm.encode()).hexdigest()[:8], 16)
                        self.fp_point[nm] = z3.RealVal('%d/%d' % (h % 997 + 3, h % 89 + 7))
                subs.append((u, self.fp_point[nm]))
            try:
                val = z3.simplify(z3.substitute(t, *subs)) if subs else z3.simplify(t)
            except z3.Z3Exception:
                val = None
            vals.append(val)
        fp = None
        try:
            if all(v is not None and z3.is_rational_value(v) for v in vals) and vals[1].numerator_as_long() != 0:
                fp = cfrac(vals[0]) / cfrac(vals[1])
        except (ValueError, ZeroDivisionError, z3.Z3Exception):
            fp = None
        self.fp_cache[key] = fp
        return fp

    def solver(self, timeout=None):
        sv = z3.Solver()
        sv.set('timeout', timeout or self.feas_timeout)
        sv.add(*self.base())
        return sv

    def check(self, extra, timeout=None):
        sv = self.solver(timeout)
        sv.add(extra)
        t = time.time()
        r = str(sv.check())
        self.stats['queries'] += 1
        dt = time.time() - t
        self.stats['solver_s'] += dt
        self.stats['max_query_s'] = max(self.stats['max_query_s'], dt)
        return r, sv

    def _feasible(self, cond):
        """may `cond` hold on this path? First against the input assumptions and the path condition only (fewer
        hypotheses: `unsat` there is `unsat` for sure and needs no large context), then against everything.
        `unknown` keeps the branch (over-approximation of paths)."""
        sv = z3.Solver(); sv.set('timeout', self.feas_timeout)
        sv.add(*self.assumes); sv.add(*self.pc); sv.add(cond)
        t = time.time(); r = str(sv.check()); dt = time.time() - t
        self.stats['queries'] += 1; self.stats['solver_s'] += dt
        if r == 'unsat':
            return False
        if not (self.side or self.axioms):
            return True
        return self.check(cond)[0] != 'unsat'

    def decide(self, cond):
        cond = z3.simplify(cond)
        if z3.is_true(cond):
            return True
        if z3.is_false(cond):
            return False
        if self.pos < len(self.decisions):
            d = self.decisions[self.pos]
        else:
            t_ok = self._feasible(cond)
            f_ok = self._feasible(z3.Not(cond))
            if t_ok and f_ok:
                d = (True, True)
                self.stats['forks'] += 1
            elif t_ok:
                d = (True, False)
            elif f_ok:
                d = (False, False)
            else:
                raise Infeasible()
            self.decisions.append(d)
        self.pos += 1
        self.stats['decisions'] += 1
        self.pc.append(cond if d[0] else z3.Not(cond))
        return d[0]


def explore(fn, stats, max_paths=4096):
    """Run fn(ctx) over every feasible path. Yields (ctx, ('ok',value)|('exc',exception))."""
    prefix = []
    n = 0
    while True:
        c = Ctx(stats)
        c.decisions = list(prefix)
        Ctx.cur = c
        try:
            res = ('ok', fn(c))
        except Infeasible:
            res = None
        except Abort:
            res = ('ok', None)
        except Exception as e:      # real exception raised by the code under test / harness
            res = ('exc', e)
        if res is not None:
            n += 1
            stats['paths'] += 1
            yield c, res
        dec = c.decisions[:c.pos] if c.pos < len(c.decisions) else c.decisions
        while dec and not dec[-1][1]:
            dec.pop()
        if not dec:
            return
        if n >= max_paths:
            raise RuntimeError('path budget exceeded (%d)' % max_paths)
        last = dec.pop()
        dec.append((not last[0], False))
        prefix = dec


# --------------------------------------------------------------------------- scalars

def simplest_rational(f):
    """float constant -> the simplest rational within half an ulp (4.0/3.0 -> 4/3)."""
    if isinstance(f, bool):
        f = int(f)
    if isinstance(f, (int, _np.integer)):
        return Fraction(int(f))
    if isinstance(f, Fraction):
        return f
    f = float(f)
    if not math.isfinite(f):
        raise NotEncodable('non-finite constant %r' % f)
    fr = Fraction(f)
    if fr.denominator == 1:
        return fr
    for lim in (10, 1000, 10 ** 6, 10 ** 9):
        s = fr.limit_denominator(lim)
        if float(s) == f:
            return s
    return fr


def rv(o):
    return z3.RealVal(str(simplest_rational(o)))


ONE = z3.RealVal(1)
ZERO = z3.RealVal(0)


def is_one(t):
    return z3.is_rational_value(t) and t.numerator_as_long() == 1 and t.denominator_as_long() == 1


def is_const(t):
    return z3.is_rational_value(t)


def cfrac(t):
    return Fraction(t.numerator_as_long(), t.denominator_as_long())


NUMERIC = (int, float, _np.floating, _np.integer, bool, Fraction)


class SR:
    """Symbolic real n/d (z3 Real terms)."""
    __slots__ = ('n', 'd')

    def __init__(self, n, d=ONE):
        self.n = n
        self.d = d

    @staticmethod
    def lift(o):
        if isinstance(o, SR):
            return o
        if isinstance(o, NUMERIC):
            return SR(rv(o))
        if isinstance(o, _np.ndarray) and o.ndim == 0:
            return SR.lift(o.item())
        return None

    def __deepcopy__(self, memo):
        return self

    def __copy__(self):
        return self

    def term(self):
        return self.n if is_one(self.d) else self.n / self.d

    # -- arithmetic (fraction free, with constant folding on the fly)
    def __add__(self, o):
        o = SR.lift(o)
        if o is None:
            return NotImplemented
        if is_const(self.n) and is_const(self.d) and is_const(o.n) and is_const(o.d):
            return SR(rv(cfrac(self.n) / cfrac(self.d) + cfrac(o.n) / cfrac(o.d)))
        if is_const(o.n) and cfrac(o.n) == 0:
            return self
        if is_const(self.n) and cfrac(self.n) == 0:
            return o
        if z3.eq(self.d, o.d):
            return SR(self.n + o.n, self.d)
        if is_one(o.d):
            return SR(self.n + o.n * self.d, self.d)
        if is_one(self.d):
            return SR(self.n * o.d + o.n, o.d)
        return SR(self.n * o.d + o.n * self.d, self.d * o.d)

    __radd__ = __add__

    def __neg__(self):
        if is_const(self.n):
            return SR(rv(-cfrac(self.n)), self.d)
        return SR(-self.n, self.d)

    def __pos__(self):
        return self

    def __sub__(self, o):
        o = SR.lift(o)
        if o is None:
            return NotImplemented
        return self + (-o)

    def __rsub__(self, o):
        return (-self) + o

    @staticmethod
    def _m(a, b):
        if is_const(a) and is_const(b):
            return rv(cfrac(a) * cfrac(b))
        if is_one(a):
            return b
        if is_one(b):
            return a
        return a * b

    def __mul__(self, o):
        o = SR.lift(o)
        if o is None:
            return NotImplemented
        if (is_const(self.n) and cfrac(self.n) == 0) or (is_const(o.n) and cfrac(o.n) == 0):
            return SR(ZERO)
        n = SR._m(self.n, o.n)
        d = SR._m(self.d, o.d)
        if is_const(n) and is_const(d):
            return SR(rv(cfrac(n) / cfrac(d)))
        return SR(n, d)

    __rmul__ = __mul__

    def inv(self):
        if is_const(self.n):
            if cfrac(self.n) == 0:
                raise ZeroDivisionError('division by literal zero')
        else:
            Ctx.cur.side.append(self.n != 0)
        return SR(self.d, self.n)

    def __truediv__(self, o):
        o = SR.lift(o)
        if o is None:
            return NotImplemented
        return self * o.inv()

    def __rtruediv__(self, o):
        return SR.lift(o) * self.inv()

    def __pow__(self, o):
        if isinstance(o, SR):
            if is_const(o.n) and is_const(o.d):
                o = cfrac(o.n) / cfrac(o.d)
            else:
                raise NotEncodable('symbolic exponent')
        f = simplest_rational(o)
        if f.denominator == 1:
            k = int(f)
            if k < 0:
                return (self ** (-k)).inv()
            r = SR(ONE)
            for _ in range(k):
                r = r * self
            return r
        if f == Fraction(1, 2):
            return self.sqrt()
        if f == Fraction(-1, 2):
            return self.sqrt().inv()
        if f == Fraction(3, 2):
            return self.sqrt() * self
        raise NotEncodable('pow %r' % (o,))

    def __rpow__(self, o):
        raise NotEncodable('symbolic exponent')

    # -- Ackermannised elementary functions
    def _uf(self, name):
        c = Ctx.cur
        lst = c.uf.setdefault(name, [])
        idx = c.uf_index.setdefault(name, {})
        hit = idx.get((self.n.get_id(), self.d.get_id()))       # identical ASTs share their id
        if hit is not None:
            return hit
        # same argument written differently (a+b vs b+a, another association of a matrix product): if the difference
        # of the two arguments is the zero polynomial (decided by the solver without hypotheses) the same variable is reused (sound: only identical
        # polynomials are merged; everything else is left to the functional-consistency axioms)
        fp = None
        if not (is_const(self.n) and is_const(self.d)) and len(lst) <= 256:
            fp = c.fingerprint(self)
            for a, v in lst:
                fq = c.fp_cache.get((a.n.get_id(), a.d.get_id()))
                if fp is None or fq is None or abs(fp - fq) > Fraction(1, 10 ** 18) * max(1, abs(fp)):
                    continue        # the two arguments differ at the sample point: not candidates
                sv = z3.Solver(); sv.set('timeout', 5000)
                sv.add(*[f for f in c.axioms if f.get_id() in c.alg_axiom_ids])    # only the defining facts of PI, SQ2, ...
                sv.add((a.n * self.d - self.n * a.d) != 0)       # unsat <=> the same polynomial modulo the algebraic constants
                if str(sv.check()) == 'unsat':
                    lst.append((self, v)); idx[(self.n.get_id(), self.d.get_id())] = v
                    return v
        if is_const(self.n) and is_const(self.d):
            val = cfrac(self.n) / cfrac(self.d)
            ex = EXACT.get(name, lambda v: None)(val)
            if ex is not None:
                v = SR(rv(ex))
                lst.append((self, v)); idx[(self.n.get_id(), self.d.get_id())] = v
                return v
        v = SR(z3.Real('%s!%d' % (name, next(c.fresh))))
        big = len(lst) > 64       # very many calls (quadratures): pairwise axioms are dropped (weaker hypotheses, still sound)
        if not big:
            for a, w in lst:   # functional consistency
                c.axioms.append(z3.Implies(a.n * self.d == self.n * a.d, w.n == v.n))
        lst.append((self, v)); idx[(self.n.get_id(), self.d.get_id())] = v
        AX[name](c, self, v, [lst[-1]] if big else lst)
        return v

    def exp(self):
        return self._uf('exp')

    def log(self):
        return self._uf('log')

    def sin(self):
        return self._uf('sin')

    def cos(self):
        return self._uf('cos')

    def sqrt(self):
        return self._uf('sqrt')

    def sinc(self):
        """numpy's normalised sinc: sin(pi x)/(pi x), 1 at x = 0 (defined everywhere: no side condition)"""
        return self._uf('sinc')

    # -- comparisons
    def _cmp(self, o, op):
        o = SR.lift(o)
        if o is None:
            return NotImplemented
        if is_one(self.d) and is_one(o.d):
            return SB(op(self.n, o.n))
        return SB(op(self.term(), o.term()))

    def __gt__(self, o):
        return self._cmp(o, lambda a, b: a > b)

    def __ge__(self, o):
        return self._cmp(o, lambda a, b: a >= b)

    def __lt__(self, o):
        return self._cmp(o, lambda a, b: a < b)

    def __le__(self, o):
        return self._cmp(o, lambda a, b: a <= b)

    def __eq__(self, o):
        return self._cmp(o, lambda a, b: a == b)

    def __ne__(self, o):
        return self._cmp(o, lambda a, b: a != b)

    __hash__ = None

    def __abs__(self):
        if is_const(self.n) and is_const(self.d):
            return SR(rv(abs(cfrac(self.n) / cfrac(self.d))))
        n = z3.If(self.n >= 0, self.n, -self.n)
        d = self.d if is_const(self.d) and cfrac(self.d) > 0 else z3.If(self.d >= 0, self.d, -self.d)
        return SR(n, d)

    def __float__(self):
        if is_const(self.n) and is_const(self.d):
            return float(cfrac(self.n) / cfrac(self.d))
        raise Realised('realisation of a symbolic real')

    def __int__(self):
        raise Realised('realisation of a symbolic real (int)')

    def __index__(self):
        raise Realised('symbolic real used as index')

    def __round__(self, n=None):
        raise Realised('round of symbolic real')

    def __format__(self, spec):
        return 'SR(..)'

    def __repr__(self):
        return 'SR(..)'

    def show(self):
        return str(z3.simplify(self.term()))


# (file suffix, function): comparisons evaluated directly in these frames only feed warnings.warn (which is a
# no-op stub); they are answered False without forking. PRISM.solve: "if np.any(H<-(1.0+tol)): warn(...)".
DONTCARE_FRAMES = [('pyPRISM/core/PRISM.py', 'solve')]


class SB:
    """Symbolic boolean; bool() forks."""
    __slots__ = ('e',)

    def __init__(self, e):
        self.e = e

    def __bool__(self):
        f = sys._getframe(1)
        for suffix, fn in DONTCARE_FRAMES:
            if f.f_code.co_name == fn and f.f_code.co_filename.endswith(suffix):
                # logging / warning-only branch of the code under test: not explored (environment stub)
                Ctx.cur.stats['dontcare'] = Ctx.cur.stats.get('dontcare', 0) + 1
                return False
        return Ctx.cur.decide(self.e)

    @staticmethod
    def _e(o):
        return o.e if isinstance(o, SB) else z3.BoolVal(bool(o))

    def __and__(self, o):
        return SB(z3.And(self.e, SB._e(o)))

    __rand__ = __and__

    def __or__(self, o):
        return SB(z3.Or(self.e, SB._e(o)))

    __ror__ = __or__

    def __invert__(self):
        return SB(z3.Not(self.e))


# --------------------------------------------------------------------------- axioms of the UFs

def _ax_exp(c, a, v, lst):
    t = a.term()
    if c.exp_underflow:
        # IEEE double facts: exp(t) == 0.0 for t <= -746, > 0 for t >= -745 (monotone in between)
        c.axioms.append(v.n >= 0)
        c.axioms.append(z3.Implies(t <= -746, v.n == 0))
        c.axioms.append(z3.Implies(t >= -745, v.n > 0))
    else:
        c.axioms.append(v.n > 0)
    c.axioms.append(z3.Implies(t == 0, v.n == 1))
    if not c.exp_underflow:
        c.axioms.append(z3.Implies(t != 0, v.n > 1 + t))     # exp(t) > 1+t (real exponential)
        c.axioms.append(z3.Implies(t < 0, v.n < 1))
    else:
        c.axioms.append(z3.Implies(t < 0, v.n <= 1))
        c.axioms.append(z3.Implies(t > 0, v.n >= 1))
    for b, w in lst[:-1]:
        bt = b.term()
        if c.exp_underflow:
            c.axioms.append(z3.Implies(t <= bt, v.n <= w.n))
            c.axioms.append(z3.Implies(t >= bt, v.n >= w.n))
            c.axioms.append(z3.Implies(z3.And(t < bt, bt >= -745), v.n < w.n))
            c.axioms.append(z3.Implies(z3.And(t > bt, t >= -745), v.n > w.n))
        else:
            c.axioms.append(z3.Implies(t < bt, v.n < w.n))
            c.axioms.append(z3.Implies(t > bt, v.n > w.n))


def _ax_log(c, a, v, lst):
    t = a.term()
    c.side.append(t > 0)
    c.axioms.append(z3.Implies(t == 1, v.n == 0))
    for b, w in lst[:-1]:
        bt = b.term()
        c.axioms.append(z3.Implies(t < bt, v.n < w.n))
        c.axioms.append(z3.Implies(t > bt, v.n > w.n))


SIN_EXACT_DENS = (2, 4, 6, 8)


def _ax_sin(c, a, v, lst):
    t = a.term()
    if getattr(c, 'sin_exact', 0):
        # link the Ackermannised sin to exact algebraic values at rational multiples of pi:
        # t == PI*p/q  =>  sin(t) == sinpi(p,q)   for q in SIN_EXACT_DENS, 0 <= p/q <= sin_exact
        pi = pi_sym().n
        seen = set()
        mult, dens = (c.sin_exact, SIN_EXACT_DENS) if isinstance(c.sin_exact, int) else (c.sin_exact[0], tuple(c.sin_exact[1]))
        for q in dens:
            for p_ in range(0, int(mult) * q + 1):
                fr = Fraction(p_, q)
                if fr in seen:
                    continue
                seen.add(fr)
                ex = sinpi(fr.numerator, fr.denominator)
                c.axioms.append(z3.Implies(a.n * fr.denominator == pi * fr.numerator * a.d, v.n * ex.d == ex.n))
    c.axioms.append(v.n <= 1)
    c.axioms.append(v.n >= -1)
    c.axioms.append(z3.Implies(t == 0, v.n == 0))
    c.axioms.append(z3.Implies(t > 0, z3.And(v.n < t, v.n > -t)))        # |sin t| < |t|
    c.axioms.append(z3.Implies(t < 0, z3.And(v.n > t, v.n < -t)))
    for b, w in lst[:-1]:
        c.axioms.append(z3.Implies(a.n * b.d == -b.n * a.d, v.n == -w.n))   # odd


def _ax_cos(c, a, v, lst):
    c.axioms.append(v.n <= 1)
    c.axioms.append(v.n >= -1)
    c.axioms.append(z3.Implies(a.term() == 0, v.n == 1))
    for b, w in lst[:-1]:
        c.axioms.append(z3.Implies(a.n * b.d == -b.n * a.d, v.n == w.n))    # even


def _ax_sqrt(c, a, v, lst):
    c.side.append(a.term() >= 0)
    c.axioms.append(v.n >= 0)
    c.axioms.append(v.n * v.n * a.d == a.n)


def _ax_sinc(c, a, v, lst):
    c.axioms.append(v.n <= 1)
    c.axioms.append(v.n >= -1)
    c.axioms.append(z3.Implies(a.term() == 0, v.n == 1))


AX = {'sinc': _ax_sinc, 'exp': _ax_exp, 'log': _ax_log, 'sin': _ax_sin, 'cos': _ax_cos, 'sqrt': _ax_sqrt}


def _exact_sqrt(val):
    if val < 0:
        return None
    n, d = val.numerator, val.denominator
    rn, rd = math.isqrt(n), math.isqrt(d)
    if rn * rn == n and rd * rd == d:
        return Fraction(rn, rd)
    return None


EXACT = {'sinc': lambda v: Fraction(1) if v == 0 else None, 'exp': lambda v: Fraction(1) if v == 0 else None,
         'log': lambda v: Fraction(0) if v == 1 else None,
         'sin': lambda v: Fraction(0) if v == 0 else None,
         'cos': lambda v: Fraction(1) if v == 0 else None,
         'sqrt': _exact_sqrt}


def algebraic(name, poly, lo, hi):
    """An algebraic constant (e.g. SQ2 with SQ2^2=2, 1<SQ2<2)."""
    c = Ctx.cur
    if name not in c.alg:
        v = z3.Real(name)
        c.alg[name] = v
        ax = [poly(v) == 0, v > lo, v < hi]
        c.axioms += ax
        c.alg_axiom_ids.update(f.get_id() for f in ax)
    return c.alg[name]


def pi_sym():
    c = Ctx.cur
    if 'PI' not in c.alg:
        v = z3.Real('PI')
        c.alg['PI'] = v
        ax = [v > rv(Fraction(314159265358979, 10 ** 14)), v < rv(Fraction(314159265358980, 10 ** 14))]
        c.axioms += ax
        c.alg_axiom_ids.update(f.get_id() for f in ax)
    return SR(c.alg['PI'])


CONST_HP = {'PI': '3.1415926535897932384626433832795028841972', 'SQ2': '1.4142135623730950488016887242096980785697', 'SQ3': '1.7320508075688772935274463415058723669428',
            'SQ5': '2.2360679774997896964091736687312762354406', 'S8': '0.3826834323650897717284599840303988667613', 'C8': '0.9238795325112867561281831893967882868224',
            'S5': '0.5877852522924731291687059546390727685976', 'S25': '0.9510565162951535721164393333793821434057'}
CONST_VALUES = {'PI': math.pi, 'SQ2': math.sqrt(2), 'SQ3': math.sqrt(3), 'SQ5': math.sqrt(5),
                'S8': math.sin(math.pi / 8), 'C8': math.cos(math.pi / 8), 'S5': math.sin(math.pi / 5), 'S25': math.sin(2 * math.pi / 5)}


def sinpi(num, den):
    """exact sin(pi*num/den) as SR for the angles whose sine is 0, 1/2, 1, sqrt2/2, sqrt3/2,
    or sin/cos(pi/8) (algebraic constants). Raises NotEncodable otherwise."""
    fr = Fraction(num, den) % 2
    sign = 1
    if fr >= 1:
        fr -= 1
        sign = -1
    if fr > Fraction(1, 2):
        fr = 1 - fr
    if fr == 0:
        return SR(ZERO)
    if fr == Fraction(1, 2):
        return SR(rv(sign))
    if fr == Fraction(1, 6):
        return SR(rv(Fraction(sign, 2)))
    if fr == Fraction(1, 4):
        v = algebraic('SQ2', lambda v: v * v - 2, 1, 2)
        return SR(v * sign, z3.RealVal(2))
    if fr == Fraction(1, 3):
        v = algebraic('SQ3', lambda v: v * v - 3, 1, 2)
        return SR(v * sign, z3.RealVal(2))
    if fr in (Fraction(1, 8), Fraction(3, 8)):
        # s=sin(pi/8), c=cos(pi/8): s^2+c^2=1, 2sc = sqrt2/2, 0<s<c<1
        q = algebraic('SQ2', lambda v: v * v - 2, 1, 2)
        c_ = Ctx.cur
        if 'S8' not in c_.alg:
            s8 = z3.Real('S8'); c8 = z3.Real('C8')
            c_.alg['S8'] = s8; c_.alg['C8'] = c8
            ax = [s8 > 0, c8 > s8, c8 < 1, s8 * s8 + c8 * c8 == 1, 4 * s8 * c8 == q]
            c_.axioms += ax
            c_.alg_axiom_ids.update(f.get_id() for f in ax)
        return SR((c_.alg['S8'] if fr == Fraction(1, 8) else c_.alg['C8']) * sign)
    if fr in (Fraction(1, 10), Fraction(3, 10)):
        # sin(pi/10) = (sqrt5-1)/4 ; sin(3pi/10) = (sqrt5+1)/4
        v = algebraic('SQ5', lambda v: v * v - 5, 2, 3)
        return SR((v - 1 if fr == Fraction(1, 10) else v + 1) * sign, z3.RealVal(4))
    if fr in (Fraction(1, 5), Fraction(2, 5)):
        # sin(pi/5) = sqrt(10-2 sqrt5)/4 ; sin(2pi/5) = sqrt(10+2 sqrt5)/4
        q5 = algebraic('SQ5', lambda v: v * v - 5, 2, 3)
        if fr == Fraction(1, 5):
            v = algebraic('S5', lambda v: 16 * v * v - (10 - 2 * q5), 0, 1)
        else:
            v = algebraic('S25', lambda v: 16 * v * v - (10 + 2 * q5), 0, 1)
        return SR(v * sign)
    if fr in (Fraction(1, 12), Fraction(5, 12)):
        # sin(pi/12) = sqrt2 (sqrt3-1)/4 ; sin(5pi/12) = sqrt2 (sqrt3+1)/4
        q2 = algebraic('SQ2', lambda v: v * v - 2, 1, 2)
        q3 = algebraic('SQ3', lambda v: v * v - 3, 1, 2)
        return SR(q2 * (q3 - 1 if fr == Fraction(1, 12) else q3 + 1) * sign, z3.RealVal(4))
    raise NotEncodable('sin(pi*%s) has no exact encoding here' % fr)


# --------------------------------------------------------------------------- helpers

def eqc(a, b):
    """z3 Bool: a == b by cross-multiplication."""
    a = SR.lift(a)
    b = SR.lift(b)
    if is_const(a.n) and is_const(b.n) and is_const(a.d) and is_const(b.d):
        return z3.simplify(a.n * b.d == b.n * a.d)
    if z3.eq(a.n, b.n) and z3.eq(a.d, b.d):
        return z3.BoolVal(True)
    # written as "difference == 0": z3 then normalises ONE polynomial (a valid identity becomes 0 == 0 in
    # preprocessing); "lhs == rhs" with two large sides goes to nlsat and can take minutes
    return (a.n * b.d - b.n * a.d) == 0


def is_symbolic(a):
    if isinstance(a, SR):
        return True
    if isinstance(a, _np.ndarray) and a.dtype == object:
        return True
    if isinstance(a, (list, tuple)):
        return any(is_symbolic(x) for x in a)
    return False


def term_hash(t):
    return hashlib.sha256(t.sexpr().encode()).hexdigest()[:12]
