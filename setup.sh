#!/bin/bash
# Build the checker environment offline: an overlay venv on /venv (which holds the repository's
# own dependencies) plus z3-solver, cvc5 and crosshair-tool from the local wheelhouse.
set -e
cd "$(dirname "$0")"
V=/verif/.venv
WH=/opt/veriftools/wheels
if [ ! -x "$V/bin/python" ] || ! "$V/bin/python" -c "import z3,crosshair,cvc5,numpy,scipy,pint" >/dev/null 2>&1; then
  rm -rf "$V"
  /venv/bin/python -m venv "$V"
  SP=$("$V/bin/python" -c "import sysconfig;print(sysconfig.get_paths()['purelib'])")
  echo "import site; site.addsitedir('/venv/lib/python3.12/site-packages')" > "$SP/_venv_overlay.pth"
  PIP_NO_INDEX=1 "$V/bin/python" -m pip install --quiet --no-index --find-links "$WH" z3-solver cvc5 crosshair-tool
fi
"$V/bin/python" -c "import z3,crosshair,cvc5,numpy,scipy,pint;print('verif env ok: z3',z3.get_version_string(),'numpy',numpy.__version__)"
mkdir -p /verif/evidence /verif/replays
