"""C06 - post-processing is history independent and never corrupts the solved object."""
import numpy as _np, itertools
import pyPRISM
from pyPRISM.core.Space import Space
from pyPRISM.core.MatrixArray import MatrixArray
from pyPRISM.core.PairTable import PairTable
from .calc import setup, apply, OPS, CALC_OPS, claim_abstract_state
from .prism import build, ckey

PROP = 'C06'
BATCH = 6
TIMEOUT = {'quick': 1200, 'thorough': 3000}
BOUNDS = dict(rank='2 (quick), 2-3 (thorough)', N=3, histories='every ordered pair of operations from the 15-element alphabet (12 calculate calls with every flag value + user transform of totalCorr/directCorr/omega) from the all-Fourier state; '
              'quick: additionally pairs from the all-Real state for the pair-loop functions; thorough: every pair from 4 start states, selected triples, rank 3 for chi/spinodal/second_virial/solvation',
              resolve='cost(x) for arbitrary x after a history, then each calculate function: equal to the same call on a fresh object evaluated at x')
OUTSIDE = ['histories longer than 3 calls beyond what the per-step invariant gives: after EVERY step the abstract content (Omega(k), H(k), C(k) read through the current space flags) is proven equal to the base symbols and every result is proven a function of that content only, which is the inductive argument for arbitrary length',
           'the krylov iteration inside solve (root stub contract as in C01); rank>3; N>3']
ASSUMPTIONS = ['the exact round trip of the transforms on N=3 (C07) is re-proven inside each obligation, not assumed']

PAIRLOOP = ('chi[extrap]', 'chi[curve]', 'spinodal[extrap]', 'second_virial[extrap]', 'second_virial[k0]', 'solvation[HNC]', 'solvation[PY]')


def instances(tier):
    out = []

    def add(rank, start, seq, **kw):
        out.append(dict(name='hist[r%d,%s,%s]' % (rank, ''.join(start), '>'.join(seq)), fn='history', args=dict(rank=rank, start=list(start), seq=list(seq)), query_timeout_ms=60000, timeout=1500, **kw))
    for a in OPS:
        for b in OPS:
            add(2, 'FFF', [a, b])
    for a in PAIRLOOP + ('flip:omega',):
        for b in PAIRLOOP:
            add(2, 'RRF', [a, b])
    for a in ('spinodal[extrap]', 'chi[curve]', 'structure_factor[norm]', 'solvation[HNC]'):
        for b in CALC_OPS:
            add(2, 'FFF', [a, a, b])
    if tier == 'thorough':
        for st in ('RRR', 'FRF', 'RFR'):
            for a in OPS:
                for b in OPS:
                    add(2, st, [a, b])
        for a in ('spinodal[extrap]', 'chi[curve]', 'second_virial[extrap]', 'solvation[HNC]', 'structure_factor[raw]'):
            for b in ('spinodal[extrap]', 'chi[curve]', 'second_virial[extrap]', 'solvation[HNC]', 'structure_factor[raw]'):
                add(3, 'FFF', [a, b]); add(3, 'RRF', [a, b])
    hist = [[], ['spinodal[extrap]'], ['chi[curve]', 'flip:totalCorr'], ['structure_factor[norm]', 'second_virial[k0]']] + ([['solvation[PY]', 'pair_correlation']] if tier == 'thorough' else [])
    for h in hist:
        heavy = bool(h) and h[0].startswith('solvation')      # log of huge arguments: 5 min per instance
        for op in (CALC_OPS if ((tier == 'thorough' and not heavy) or not h) else ['structure_factor[raw]', 'spinodal[extrap]', 'pair_correlation', 'chi[curve]']):
            if tier == 'thorough' and h and op.startswith('solvation'):
                continue
            out.append(dict(name='resolve[r2,%s|%s]' % ('>'.join(h) or '-', op), fn='resolve', args=dict(rank=2, hist=h, op=op), query_timeout_ms=120000, timeout=1500))
    return out


def history(E, rank, start, seq):
    St = setup(E, rank, 3, flags=tuple(start), positive_g=any(s == 'pmf' for s in seq))
    E.reachable('history')
    claim_abstract_state(St, 'start')
    kept = []
    for i, op in enumerate(seq):
        res = apply(St, op, 's%d:%s' % (i, op))       # result == definition on the base symbols; abstract content preserved
        # values returned by EARLIER calls are the caller's: a later call must not overwrite them
        for (j, opj, obj, snapshot) in kept:
            now = _elements(obj)
            E.claim_true('s%d:%s:result-of-step-%d(%s)-not-overwritten' % (i, op, j, opj),
                         len(now) == len(snapshot) and all((a is b) if (E.sym and hasattr(a, 'n')) else _same_value(a, b) for a, b in zip(now, snapshot)))
        if res is not None:
            kept.append((i, op, res, _elements(res)))
    if seq[0] == 'pair_correlation':
        E.claim('canary', E.eq(St.P.omega.data[0, 0, 0] if St.P.omega.space == Space.Fourier else St.P.totalCorr.data[0, 0, 0], 12345.0), canary=True)


def _elements(obj):
    if isinstance(obj, MatrixArray):
        return [obj.data[idx] for idx in _np.ndindex(*obj.data.shape)]
    if isinstance(obj, PairTable):
        out = []
        for a in obj.types:
            for b in obj.types:
                v = obj[a, b]
                if v is None:
                    out.append(None)
                elif isinstance(v, _np.ndarray):
                    out += [v[i] for i in range(len(v))]
                else:
                    out.append(v)
        return out
    return []


def _same_value(a, b):
    if a is None or b is None:
        return a is b
    try:
        return bool(a == b) or (a != a and b != b)
    except Exception:
        return a is b


def _run(P, op):
    calc = pyPRISM.calculate
    name = op.split('[')[0]
    arg = op[op.index('[') + 1:-1] if '[' in op else None
    if name == 'pair_correlation':
        return calc.pair_correlation(P)
    if name == 'pmf':
        return calc.pmf(P)
    if name == 'structure_factor':
        return calc.structure_factor(P, normalize=(arg == 'norm'))
    if name == 'second_virial':
        return calc.second_virial(P, extrapolate=(arg == 'extrap'))
    if name == 'chi':
        return calc.chi(P, extrapolate=(arg == 'extrap'))
    if name == 'spinodal':
        return calc.spinodal_condition(P, extrapolate=(arg == 'extrap'))
    if name == 'solvation':
        return calc.solvation_potential(P, closure=arg)
    raise KeyError(op)


def resolve(E, rank, hist, op):
    """a history of calls, then the object is re-evaluated at an arbitrary x (re-solve step), then one calculate call:
    everything equals the same call on a fresh object evaluated at x"""
    N = 3       # the three-point extrapolations need three k points
    cls = {'AA': 'PercusYevick', 'AB': 'HyperNettedChain', 'BB': 'PercusYevick'}
    B = build(E, rank, N, closures=cls, flags={'AA': True})
    P = B.S.createPRISM()
    E.claim('canary', E.eq(P.omega.data[0, 0, 0], B.w['AA'][0] * B.rho['A'] + 1.0), canary=True)     # asked while the context is still small
    x0 = E.arr('x0', (N * rank * rank,), default=0.1)
    x = E.arr('x', (N * rank * rank,), default=0.15)
    for v in (x0, x):
        for i in range(N):
            v[i * 4 + 2] = v[i * 4 + 1]
    if E.sym:
        E.ctx.feas_timeout = 10000
    P.cost(x0)
    for h in hist:
        if h.startswith('flip:'):
            M = getattr(P, h.split(':')[1])
            (P.sys.domain.MatrixArray_to_real if M.space == Space.Fourier else P.sys.domain.MatrixArray_to_fourier)(M)
        else:
            _run(P, h)
    if P.omega.space == Space.Real:
        P.sys.domain.MatrixArray_to_fourier(P.omega)
    y = P.cost(x)
    F = B.S.createPRISM()
    yF = F.cost(x)
    E.reachable('resolve')
    for i in range(len(y)):
        E.claim_eq('cost(x)[%d]' % i, y[i], yF[i])
    for which in ('totalCorr', 'directCorr', 'omega'):
        a, b = getattr(P, which), getattr(F, which)
        E.claim_true('%s-space' % which, a.space == b.space)
        for idx in _np.ndindex(*b.data.shape):
            E.claim_eq('%s%s' % (which, list(idx)), a.data[idx], b.data[idx])
    if op == 'pmf' and E.sym:
        return
    r1 = _run(P, op); r2 = _run(F, op)
    if isinstance(r2, MatrixArray):
        E.claim_true('result-space', r1.space == r2.space)
        for idx in _np.ndindex(*r2.data.shape):
            E.claim_eq('%s%s' % (op, list(idx)), r1.data[idx], r2.data[idx])
    else:
        for a in B.types:
            for b in B.types:
                va, vb = r1[a, b], r2[a, b]
                if va is None or vb is None:
                    E.claim_true('%s[%s,%s]-both-unset' % (op, a, b), va is None and vb is None)
                else:
                    E.claim_eq('%s[%s,%s]' % (op, a, b), va, vb)

