"""C13 - MatrixArray arithmetic == per-matrix linear algebra, no aliasing, keyed access, space rules.

A tiny interpreter applies a sequence of operations to the real MatrixArray object and to a
reference model (nested Python lists, plain loops); after every step every entry of the object and
of every returned object is compared with the model by the solver, plus identity / memory-sharing
facts. Data are symbolic, so each comparison holds for all values.
"""
import numpy as _np, itertools
import pyPRISM
from pyPRISM.core.Space import Space
from pyPRISM.core.MatrixArray import MatrixArray
from pyPRISM.core.IdentityMatrixArray import IdentityMatrixArray

PROP = 'C13'
BATCH = 12
BOUNDS = dict(quick='rank 1-3, length 2 (rank 3: single ops + invert histories), op sequences of depth 1-3',
              thorough='rank 1-3 with inverse, rank 4-5 without inverse, length 1-3, all depth-2 (mutator,observer) and depth-3 (observer,mutator,observer) sequences')
OUTSIDE = ['lengths above 3 (numpy elementwise/einsum loops are length-uniform: evidence, not proof)', 'floating-point conditioning of np.linalg.inv (Real model; det != 0 is a side condition)',
           'python -O (the space checks are assert statements)']
ASSUMPTIONS = ['np.linalg.inv is replaced by an adjugate/determinant stub in symbolic mode; the claim A.dot(A.invert()) == I is decided independently of it by the solver',
               '"refused" for mismatched spaces means AssertionError (the code uses assert)']

BIN = ['add', 'sub', 'mul', 'div']
PYOP = {'add': lambda a, b: a + b, 'sub': lambda a, b: a - b, 'mul': lambda a, b: a * b, 'div': lambda a, b: a / b}


def _iop(x, op, o):
    if op == 'add':
        x += o
    elif op == 'sub':
        x -= o
    elif op == 'mul':
        x *= o
    elif op == 'div':
        x /= o
    return x


def all_ops():
    ops = []
    for b in BIN:
        for k in ('s', 'M', 'M1', 'arr'):
            ops.append('i%s_%s' % (b, k))      # in place
            ops.append('%s_%s' % (b, k))       # out of place
    ops += ['dot', 'dot_inplace', 'matmul', 'imatmul', 'invert', 'invert_inplace', 'get_copy', 'setitem', 'setMatrix', 'setitem_diag']
    return ops


MUTATORS = ['iadd_s', 'imul_M', 'idiv_M1', 'isub_arr', 'setitem', 'setMatrix', 'dot_inplace', 'imatmul', 'invert_inplace', 'setitem_diag']
OBSERVERS = ['invert', 'dot', 'matmul', 'get_copy', 'add_M', 'mul_s', 'div_M1', 'sub_arr']


def instances(tier):
    out = []

    def add(rank, length, left, seq, **kw):
        out.append(dict(name='seq[r%d,l%d,%s,%s]' % (rank, length, left, '>'.join(seq)), fn='ma_sequence',
                        args=dict(rank=rank, length=length, left=left, seq=list(seq)), **kw))
    ranks = (1, 2)
    for op in all_ops():
        for rank in ranks:
            add(rank, 2, 'MA', [op])
        add(2, 2, 'I', [op])
    for op in all_ops():
        if 'invert' in op:
            add(3, 1, 'MA', [op], query_timeout_ms=120000)
        elif tier == 'thorough' or op in ('dot', 'imul_M', 'div_M1', 'setitem', 'add_arr', 'imatmul'):
            add(3, 2, 'MA', [op])
    # histories: observer, mutator, observer (stale caches / aliasing show up only here)
    obs3 = OBSERVERS if tier == 'thorough' else ['invert', 'dot', 'get_copy']
    mut3 = MUTATORS
    for a in obs3:
        for m in mut3:
            for b in (obs3 if tier == 'thorough' else ['invert', 'dot']):
                add(2, 2, 'MA', [a, m, b])
    for m in MUTATORS:
        for b in OBSERVERS:
            add(2, 2, 'I', [m, b])
            if tier == 'thorough':
                add(2, 1, 'MA', [m, b]); add(2, 3, 'MA', [m, b])
    for m1 in (MUTATORS if tier == 'thorough' else ['iadd_s', 'setitem', 'imatmul']):
        for m2 in MUTATORS:
            add(2, 2, 'MA', [m1, m2, 'invert'])
    if tier == 'thorough':
        for op in all_ops():
            if 'invert' not in op:
                add(4, 1, 'MA', [op]); add(5, 1, 'MA', [op])
        add(3, 2, 'MA', ['invert', 'imul_M', 'invert'], query_timeout_ms=120000)
    for op in ('add_M', 'sub_M', 'mul_M', 'div_M', 'dot', 'matmul'):
        out.append(dict(name='broadcast-left[r2,%s]' % op, fn='broadcast_left', args=dict(rank=2, op=op)))
    out.append(dict(name='space-rules', fn='space_rules', args={}))
    for rank in (1, 2, 3):
        out.append(dict(name='keyed[r%d]' % rank, fn='keyed_access', args=dict(rank=rank)))
    return out


# ----------------------------------------------------------------------------- model helpers

def tolist(data):
    return [[[data[l, i, j] for j in range(data.shape[2])] for i in range(data.shape[1])] for l in range(data.shape[0])]


def mm(A, B):
    n = len(A)
    return [[sum((A[i][k] * B[k][j] for k in range(1, n)), A[i][0] * B[0][j]) for j in range(n)] for i in range(n)]


def compare(E, key, data, model):
    ok_shape = tuple(data.shape) == (len(model), len(model[0]), len(model[0]))
    E.claim_true(key + ':shape', ok_shape)
    if not ok_shape:
        return
    for l in range(len(model)):
        for i in range(len(model[0])):
            for j in range(len(model[0])):
                E.claim_eq('%s[%d,%d,%d]' % (key, l, i, j), data[l, i, j], model[l][i][j])


def same_elements(data, snapshot, sym):
    flat = [data[idx] for idx in _np.ndindex(*data.shape)]
    if len(flat) != len(snapshot):
        return False
    if sym:
        return all((a is b) or (not hasattr(a, 'n') and not hasattr(b, 'n') and a == b) for a, b in zip(flat, snapshot))
    return all(a == b for a, b in zip(flat, snapshot))


def snap(data):
    return [data[idx] for idx in _np.ndindex(*data.shape)]


def ma_sequence(E, rank, length, left, seq):
    types = ['A', 'B', 'C', 'D', 'E'][:rank]
    if left == 'I':
        X = IdentityMatrixArray(length=length, rank=rank, space=Space.Fourier, types=types)
    else:
        X = MatrixArray(length=length, rank=rank, data=E.arr('x', (length, rank, rank), default=0.6), space=Space.Fourier, types=types)
        if not E.sym:
            # well conditioned default data for replays that do not fix x
            for l in range(length):
                for i in range(rank):
                    if 'x_%d_%d_%d' % (l, i, i) not in E.values:
                        X.data[l, i, i] = 2.0 + i
    Y = MatrixArray(length=length, rank=rank, data=E.arr('y', (length, rank, rank), default=0.4), space=Space.Fourier, types=types)
    Y1 = MatrixArray(length=1, rank=rank, data=E.arr('z', (1, rank, rank), default=1.7), space=Space.NonSpatial, types=types)
    s = E.real('s', default=1.5)
    arr = E.arr('a', (rank, rank), default=0.9)           # bare array, broadcast over the length axis
    vec = E.arr('v', (length,), default=-0.3)             # a pair function
    mat = E.arr('m', (rank, rank), default=0.2)
    MX, MY, MY1 = tolist(X.data), tolist(Y.data), tolist(Y1.data)
    Marr = [[arr[i, j] for j in range(rank)] for i in range(rank)]
    ysnap, y1snap, asnap = snap(Y.data), snap(Y1.data), snap(arr)
    ydata, y1data = Y.data, Y1.data
    E.reachable('seq')

    def operand(kind):
        if kind == 's':
            return s, lambda l, i, j: s
        if kind == 'M':
            return Y, lambda l, i, j: MY[l][i][j]
        if kind == 'M1':
            return Y1, lambda l, i, j: MY1[0][i][j]
        if kind == 'arr':
            return arr, lambda l, i, j: Marr[i][j]
        raise KeyError(kind)

    for step, op in enumerate(seq):
        tag = '%d:%s' % (step, op)
        xid = id(X)
        xdata_before = X.data
        xsnap = snap(X.data)
        result = None
        Mres = None
        inplace = False
        if '_' in op and op.split('_')[0].lstrip('i') in BIN and op.split('_')[1] in ('s', 'M', 'M1', 'arr'):
            name, kind = op.split('_')
            other, get = operand(kind)
            b = name.lstrip('i') if name.startswith('i') and name[1:] in BIN else name
            newM = [[[PYOP[b](MX[l][i][j], get(l, i, j)) for j in range(rank)] for i in range(rank)] for l in range(length)]
            if name.startswith('i') and name[1:] in BIN:
                inplace = True
                X2 = _iop(X, b, other)
                E.claim_true(tag + ':inplace-returns-self', X2 is X)
                MX = newM
            else:
                result = PYOP[b](X, other); Mres = newM
        elif op in ('dot', 'matmul'):
            result = X.dot(Y) if op == 'dot' else (X @ Y)
            Mres = [mm(MX[l], MY[l]) for l in range(length)]
        elif op in ('dot_inplace', 'imatmul'):
            inplace = True
            if op == 'dot_inplace':
                X2 = X.dot(Y, inplace=True)
            else:
                X2 = X
                X2 @= Y
            E.claim_true(tag + ':inplace-returns-self', X2 is X)
            MX = [mm(MX[l], MY[l]) for l in range(length)]
        elif op in ('invert', 'invert_inplace'):
            pre = MX
            if op == 'invert':
                result = X.invert()
                inv = result.data
            else:
                inplace = True
                X2 = X.invert(inplace=True)
                E.claim_true(tag + ':inplace-returns-self', X2 is X)
                inv = X.data
            ok_shape = tuple(inv.shape) == (length, rank, rank)
            E.claim_true(tag + ':shape', ok_shape)
            if ok_shape:
                for l in range(length):
                    P = mm(pre[l], [[inv[l, i, j] for j in range(rank)] for i in range(rank)])
                    for i in range(rank):
                        for j in range(rank):
                            E.claim_eq('%s:A.inv(A)=I[%d,%d,%d]' % (tag, l, i, j), P[i][j], 1.0 if i == j else 0.0)
                if step == 0 and left == 'MA':
                    E.claim('%s:canary' % tag, E.eq(mm(pre[0], [[inv[0, i, j] for j in range(rank)] for i in range(rank)])[0][0], 2.0), canary=True)
            if op == 'invert':
                Mres = None        # identity with the model product is the check; then trust the returned entries
                Minv = tolist(inv) if ok_shape else None
            else:
                MX = tolist(inv)
        elif op == 'get_copy':
            result = X.get_copy(); Mres = MX
            E.claim_true(tag + ':copy-keeps-space-and-types', result.space == X.space and list(result.types) == list(X.types))
        elif op in ('setitem', 'setitem_diag'):
            inplace = True
            a, b2 = (types[0], types[-1]) if op == 'setitem' else (types[-1], types[-1])
            X[a, b2] = vec
            ia, ib = types.index(a), types.index(b2)
            MX = [[[(vec[l] if (i, j) in ((ia, ib), (ib, ia)) else MX[l][i][j]) for j in range(rank)] for i in range(rank)] for l in range(length)]
        elif op == 'setMatrix':
            inplace = True
            X.setMatrix(length - 1, mat)
            MX = [[[(mat[i, j] if l == length - 1 else MX[l][i][j]) for j in range(rank)] for i in range(rank)] for l in range(length)]
        else:
            raise KeyError(op)
        # ---- the left operand after the step
        E.claim_true(tag + ':same-object', id(X) == xid)
        compare(E, tag + ':X', X.data, MX)
        if not inplace:
            E.claim_true(tag + ':left-untouched', X.data is xdata_before and same_elements(X.data, xsnap, E.sym))
        # ---- right operands are never modified
        E.claim_true(tag + ':right-untouched', Y.data is ydata and Y1.data is y1data and same_elements(Y.data, ysnap, E.sym)
                     and same_elements(Y1.data, y1snap, E.sym) and same_elements(arr, asnap, E.sym))
        # ---- the returned object
        if result is not None:
            E.claim_true(tag + ':returns-MatrixArray', isinstance(result, MatrixArray) and result is not X and result is not Y)
            if Mres is not None:
                compare(E, tag + ':result', result.data, Mres)
            shares = any(_np.shares_memory(result.data, o) for o in (X.data, Y.data, Y1.data, arr))
            E.claim_true(tag + ':result-shares-no-memory', not shares)
            E.claim_true(tag + ':result-rank-length', result.rank == rank and result.length == length)
            # mutate the result: operands must not see it
            if E.sym:
                result.data[0, 0, 0] = result.data[0, 0, 0] + 1.0
            else:
                result.data[0, 0, 0] += 1.0
            compare(E, tag + ':X-after-result-mutation', X.data, MX)
            E.claim_true(tag + ':right-untouched-after-result-mutation', same_elements(Y.data, ysnap, E.sym) and same_elements(Y1.data, y1snap, E.sym))
    if seq and left == 'MA' and 'invert' not in seq[-1]:
        E.claim('canary-final', E.eq(X.data[0, 0, 0], MX[0][0][0] + 1.0), canary=True)


def broadcast_left(E, rank, op):
    """a length-1 MatrixArray (e.g. a density) as LEFT operand of an out-of-place operation with a length-L array: the per-matrix result of length L"""
    L = 2
    D = MatrixArray(length=1, rank=rank, data=E.arr('d', (1, rank, rank), default=1.7), space=Space.NonSpatial)
    H = MatrixArray(length=L, rank=rank, data=E.arr('h', (L, rank, rank), default=0.4), space=Space.Fourier)
    MD, MH = tolist(D.data), tolist(H.data)
    E.reachable('broadcast-left')
    if op in ('dot', 'matmul'):
        res = D.dot(H) if op == 'dot' else (D @ H)
        want = [mm(MD[0], MH[l]) for l in range(L)]
    else:
        b = op.split('_')[0]
        res = PYOP[b](D, H)
        want = [[[PYOP[b](MD[0][i][j], MH[l][i][j]) for j in range(rank)] for i in range(rank)] for l in range(L)]
    compare(E, op + ':result', res.data, want)
    E.claim_true(op + ':operands-untouched', tolist(D.data) is not None and all(D.data[0, i, j] is MD[0][i][j] or D.data[0, i, j] == MD[0][i][j] for i in range(rank) for j in range(rank)))


def space_rules(E):
    """all 3x3 flag pairs x all binary operators (finite, enumerated): refused iff {Real, Fourier}"""
    spaces = [Space.Real, Space.Fourier, Space.NonSpatial]
    ops = {
        'add': lambda a, b: a + b, 'sub': lambda a, b: a - b, 'mul': lambda a, b: a * b, 'div': lambda a, b: a / b,
        'iadd': lambda a, b: _iop(a, 'add', b), 'isub': lambda a, b: _iop(a, 'sub', b), 'imul': lambda a, b: _iop(a, 'mul', b), 'idiv': lambda a, b: _iop(a, 'div', b),
        'dot': lambda a, b: a.dot(b), 'dot_inplace': lambda a, b: a.dot(b, inplace=True), 'matmul': lambda a, b: a @ b, 'imatmul': lambda a, b: a.__imatmul__(b),
    }
    x = E.arr('x', (1, 2, 2), default=0.6)
    y = E.arr('y', (1, 2, 2), default=0.4)
    n = 0
    for s1 in spaces:
        for s2 in spaces:
            clash = {s1, s2} == {Space.Real, Space.Fourier}
            for name, f in ops.items():
                A = MatrixArray(length=1, rank=2, data=x.copy(), space=s1)
                B = MatrixArray(length=1, rank=2, data=y.copy(), space=s2)
                before = snap(A.data)
                try:
                    f(A, B)
                    refused = False
                except AssertionError:
                    refused = True
                E.claim_true('refused-iff-real-vs-fourier[%s,%s,%s]' % (s1.name, s2.name, name), refused == clash)
                if refused:
                    E.claim_true('refused-op-left-no-trace[%s,%s,%s]' % (s1.name, s2.name, name), same_elements(A.data, before, E.sym))
                n += 1
    E.claim_true('enumerated-108', n == 108)


def keyed_access(E, rank):
    types = ['p', 'q', 'rr'][:rank]
    L = 2
    X = MatrixArray(length=L, rank=rank, data=E.arr('x', (L, rank, rank), default=0.6), space=Space.Real, types=types)
    M = tolist(X.data)
    E.reachable('keyed')
    k = 0
    for ia, a in enumerate(types):
        for ib, b in enumerate(types):
            vec = E.arr('v%d' % k, (L,), default=0.1 * (k + 1)); k += 1
            X[a, b] = vec
            for l in range(L):
                M[l][ia][ib] = vec[l]; M[l][ib][ia] = vec[l]
            compare(E, 'after-set[%s,%s]' % (a, b), X.data, M)
            for l in range(L):
                E.claim_eq('read[%s,%s][%d]' % (a, b, l), X[a, b][l], vec[l])
                E.claim_eq('read-swapped[%s,%s][%d]' % (b, a, l), X[b, a][l], vec[l])
                E.claim_eq('get[%d,%d][%d]' % (ia, ib, l), X.get(ia, ib)[l], vec[l])
            # later change of the caller's vector does not leak
            if E.sym:
                vec[0] = vec[0] + 1.0
            else:
                vec[0] += 1.0
            compare(E, 'after-caller-mutation[%s,%s]' % (a, b), X.data, M)
    for l in range(L):
        mtx = X.getMatrix(l)
        for i in range(rank):
            for j in range(rank):
                E.claim_eq('getMatrix[%d][%d,%d]' % (l, i, j), mtx[i, j], M[l][i][j])
    # symmetric after keyed writes
    for l in range(L):
        for i in range(rank):
            for j in range(rank):
                E.claim_eq('symmetric[%d,%d,%d]' % (l, i, j), X.data[l, i, j], X.data[l, j, i])
    for bad in (('zz', types[0]), (types[0], 'zz'), ('zz', 'zz'), (types[0].upper() + '_', types[0])):
        E.expect_raises('get-unknown-type-raises-ValueError[%s,%s]' % bad, (ValueError,), lambda: X[bad[0], bad[1]])
        def _set():
            X[bad[0], bad[1]] = X.data[:, 0, 0]
        E.expect_raises('set-unknown-type-raises-ValueError[%s,%s]' % bad, (ValueError,), _set)
    compare(E, 'after-refused-access', X.data, M)
    E.claim('canary', E.eq(X.data[0, 0, 0], M[0][0][0] + 1.0), canary=True)
    # iterpairs: upper triangle in type order, views of the data
    seen = [(ij, t) for ij, t, v in X.iterpairs()]
    want = [((i, j), (types[i], types[j])) for i in range(rank) for j in range(rank) if i <= j]
    E.claim_true('iterpairs-order', seen == want)
