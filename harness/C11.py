"""C11 - analytic omega(k) models equal their defining pair sums and obey the sum rules."""
import numpy as _np, math, z3
import pyPRISM
from vsym import core
from vsym.core import SR, SB

PROP = 'C11'
BATCH = 4
TIMEOUT = {'quick': 900, 'thorough': 3000}
BOUNDS = dict(Gaussian_FJC='chain lengths N = 2..12 (quick), 2..32 (thorough); k a 2-element symbolic array, k>0; sigma / l > 0', GaussianRing='N = 2..8', DiscreteKoyama='constructor guards with symbolic sigma, l, lp; pair sum for N = 3..8 on 3 concrete valid parameter sets with symbolic k',
              trivial='SingleSite, NoIntra, InterMolecular on a symbolic k array', NFJC='evaluates without raising; no denominator of the real calculate can vanish for k>0 on the 999-node quadrature')
OUTSIDE = ['call histories on one NFJC object are covered in the thorough tier only and only for N=2 (two symbolic evaluations of the 999-node meshgrid take ~10 min; for N>=3 the symbolic quadrature of two evaluations exceeds the budget), so a result cache in NFJC is not seen by the quick tier', 'N > 32 (an unbounded-N proof needs induction); the numerical value of the NFJC quadrature; Koyama\'s moment formulas (kernel_base) are used as the definition of the per-pair kernel, not re-derived',
           'floating-point cancellation of the closed forms at very small k (Real model here)', 'the limits k->0 / k->inf themselves: proven is the polynomial identity with the pair sum, whose value is N at E=1 and 1 at E=0 (continuity is the pen-and-paper step)']
ASSUMPTIONS = ['E = exp(-k^2 sigma^2/6) resp. sin(kl)/(kl) is an Ackermann variable with exp(t)<1 for t<0, |sin|<=1, sin t < t for t>0', 'DiscreteKoyama: the bending-energy root solve is concrete (scipy); paths with symbolic parameters end after the constructor guards']


def PATCH_EXTRA(inst):
    if inst['fn'] == 'koyama_guard':
        return {'root': _abort_root}
    return {}


def _abort_root(*a, **k):
    raise core.Abort()


KOY = [dict(sigma=1.0, l=1.0, lp=1.43), dict(sigma=1.0, l=0.9, lp=2.0), dict(sigma=0.8, l=1.0, lp=4.0 * 1.0 / (4.0 - 0.64) * 1.0005)]


def instances(tier):
    out = []
    Ns = list(range(2, 13)) if tier == 'quick' else list(range(2, 33))
    for model in ('Gaussian', 'FreelyJointedChain'):
        for N in Ns:
            out.append(dict(name='closed[%s,N%d]' % (model, N), fn='closed_form', args=dict(model=model, N=N), query_timeout_ms=60000))
    for N in range(2, 9):
        out.append(dict(name='ring[N%d]' % N, fn='ring', args=dict(N=N), query_timeout_ms=60000))
    out.append(dict(name='trivial', fn='trivial', args={}))
    out.append(dict(name='koyama-guard', fn='koyama_guard', args={}, max_paths=64))
    for pi_, par in enumerate(KOY):
        for N in ((3, 5, 8) if tier == 'quick' else range(3, 9)):
            out.append(dict(name='koyama-sum[p%d,N%d]' % (pi_, N), fn='koyama_sum', args=dict(par=par, N=N), query_timeout_ms=60000))
    out.append(dict(name='nfjc[N3]', fn='nfjc', args=dict(N=3), query_timeout_ms=20000, timeout=1500))
    if tier != 'quick':  # ~10 min of symbolic execution (two 999-node meshgrids): thorough tier only
        out.append(dict(name='nfjc-history[N2]', fn='nfjc_history', args=dict(N=2), query_timeout_ms=20000, timeout=1500))
    out.append(dict(name='aliases', fn='aliases', args={}))
    for model in ('Gaussian', 'FreelyJointedChain'):
        for N in ((2,) if tier == 'quick' else (2, 3)):
            out.append(dict(name='closed-fp[%s,N%d]' % (model, N), fn='closed_fp', args=dict(model=model, N=N), narrow=(tier == 'quick'), query_timeout_ms=600000, timeout=2500))
    return out


def pair_sum(N, w):
    """(1/N) Sum_{i,j} w(|i-j|) = w(0) + (2/N) Sum_{n=1}^{N-1} (N-n) w(n)"""
    acc = w(0)
    for n in range(1, N):
        acc = acc + w(n) * (2.0 * (N - n)) / N
    return acc


def _vars(t):
    seen = set(); out = set(); st = [t]
    while st:
        u = st.pop()
        if u.get_id() in seen:
            continue
        seen.add(u.get_id())
        if z3.is_const(u) and u.decl().kind() == z3.Z3_OP_UNINTERPRETED:
            out.add(str(u))
        st.extend(u.children())
    return out


def closed_form(E, model, N):
    k = E.arr('k', 2, pos=True, default=0.7)
    if not E.sym and 'k_1' not in E.values:
        k[1] = 2.3
    s = E.real('s', pos=True, default=1.1)
    om = pyPRISM.omega.Gaussian(sigma=s, length=N) if model == 'Gaussian' else pyPRISM.omega.FreelyJointedChain(length=N, l=s)
    k_snap = [k[0], k[1]]
    val = om.calculate(k)
    E.reachable('closed')
    E.claim_true('shape', _np.shape(val) == (2,))
    for i in range(2):
        Ei = E.exp(-(k[i] * k[i] * s * s) / 6.0) if model == 'Gaussian' else E.sin(k[i] * s) / (k[i] * s)
        powers = [E.const(1.0)]
        for n in range(1, N):
            powers.append(powers[-1] * Ei)
        ps = pair_sum(N, lambda n: powers[n])
        E.claim_eq('omega==(1/N)SumSum E^|i-j|[%d]' % i, val[i], ps)
        E.claim('1-E!=0 (finite for k>0)[%d]' % i, E.bnot(E.eq(Ei, 1.0)))
        E.claim('omega<=N[%d]' % i, E.le(val[i], float(N)), timeout_ms=60000)
        E.claim('omega>0[%d]' % i, E.le(0.0, val[i]) if model == 'Gaussian' else True, timeout_ms=60000)
    if E.sym:
        v0 = _vars(SR.lift(val[0]).n) | _vars(SR.lift(val[0]).d)
        E.claim_true('value-at-k0-independent-of-k1', 'k_1' not in v0 and not any(('k_1' in _vars(a.n) | _vars(a.d)) for nm in E.ctx.uf for a, v in E.ctx.uf[nm] if str(v.n) in v0))
        E.claim_true('k-unmodified', k[0] is k_snap[0] and k[1] is k_snap[1])
    else:
        one = om.calculate(_np.array([k[0]]))
        E.claim('value-at-k0-independent-of-k1', E.eq(one[0], val[0]))
    # history: the same object evaluated again on another array sharing the first wavenumber (no cached result)
    k2 = _np.empty(2, dtype=k.dtype); k2[0] = k[0]; k2[1] = E.real('k_other', pos=True, default=1.9)
    first0 = val[0]
    val2 = om.calculate(k2)
    E.claim_eq('second-call:same-k-same-value', val2[0], first0)
    E2 = E.exp(-(k2[1] * k2[1] * s * s) / 6.0) if model == 'Gaussian' else E.sin(k2[1] * s) / (k2[1] * s)
    pw = [E.const(1.0)]
    for n in range(1, N):
        pw.append(pw[-1] * E2)
    E.claim_eq('second-call:new-k-new-value', val2[1], pair_sum(N, lambda n: pw[n]))
    E.claim('canary', E.eq(val[0], pair_sum(N, lambda n: E.const(1.0))), canary=True)


def ring(E, N):
    k = E.arr('k', 2, pos=True, default=0.7)
    s = E.real('s', pos=True, default=1.1)
    om = pyPRISM.omega.GaussianRing(sigma=s, length=N)
    val = om.calculate(k)
    E.reachable('ring')
    for i in range(2):
        ps = pair_sum(N, lambda n: E.exp(-(s * s * k[i] * k[i] * n * (N - n)) / (6.0 * N)))
        E.claim_eq('omega==(1/N)SumSum exp(-s^2k^2 m(N-m)/6N)[%d]' % i, val[i], ps)
        E.claim('omega<=N[%d]' % i, E.le(val[i], float(N)))
    E.claim('canary', E.eq(val[0], float(N)), canary=True)


def trivial(E):
    k = E.arr('k', 3, pos=True, default=0.7)
    for cls, want in (('SingleSite', 1.0), ('NoIntra', 0.0), ('InterMolecular', 0.0)):
        v = getattr(pyPRISM.omega, cls)().calculate(k)
        E.claim_true('%s-shape' % cls, _np.shape(v) == (3,))
        for i in range(3):
            E.claim_eq('%s==%g[%d]' % (cls, want, i), v[i], want)
    E.claim_true('InterMolecular-is-NoIntra', issubclass(pyPRISM.omega.InterMolecular, pyPRISM.omega.NoIntra))


def koyama_guard(E):
    """constructor raises ValueError <=> l <= sigma/2 or lp < 4 l^3/(4 l^2 - sigma^2) (overlapping second neighbours)"""
    s = E.real('sigma', pos=True, default=1.0); l = E.real('l', pos=True, default=1.0); lp = E.real('lp', pos=True, default=1.43)
    invalid = E.bor(E.le(l, s / 2.0), E.band(E.bnot(E.le(l, s / 2.0)), E.bnot(E.le(4.0 * l * l * l / (4.0 * l * l - s * s), lp)))) if E.sym else (l <= s / 2.0 or lp < 4.0 * l ** 3 / (4.0 * l * l - s * s))
    nside = len(E.ctx.side) if E.sym else 0
    try:
        pyPRISM.omega.DiscreteKoyama(sigma=s, l=l, length=10, lp=lp)
        raised = False
    except ValueError:
        raised = True
    E.reachable('guard')
    # no division of the constructor can hit a zero denominator on this path (else an arithmetic error replaces the ValueError)
    E.claim_no_singularity('constructor-divisions-defined', since=nside)
    if raised:
        E.claim('ValueError-only-for-invalid-parameters', invalid)
    else:
        E.claim('valid-parameters-accepted', E.bnot(invalid))


def koyama_sum(E, par, N):
    """calculate(k) == 1 + (2/N) Sum_{n=1}^{N-1} (N-n) kappa_n(k), kappa_n the class's own Koyama kernel; constructor must work"""
    k = E.arr('k', 1, pos=True, default=0.7)
    om, exc = E.expect_no_raise('constructor-accepts-valid-parameters', lambda: pyPRISM.omega.DiscreteKoyama(sigma=par['sigma'], l=par['l'], length=N, lp=par['lp']))
    if exc is not None:
        return
    val = om.calculate(k)
    E.reachable('koyama-sum')
    ps = pair_sum(N, lambda n: E.const(1.0) if n == 0 else om.koyama_kernel_fourier(k=k, n=n)[0])
    E.claim_eq('omega==1+(2/N)Sum(N-n)kappa_n', val[0], ps)
    E.claim('canary', E.eq(val[0], ps + 1.0), canary=True)


def nfjc(E, N):
    k = E.arr('k', 1, pos=True, default=0.35)
    import warnings
    with warnings.catch_warnings():
        warnings.simplefilter('ignore')
        om = pyPRISM.omega.NonOverlappingFreelyJointedChain(length=N, l=1.0)
        nside = len(E.ctx.side) if E.sym else 0
        val, exc = E.expect_no_raise('evaluates-without-raising', lambda: om.calculate(k))
    if exc is not None:
        return
    E.reachable('nfjc')
    if E.sym:
        E.claim_no_singularity('no-singular-denominator-for-k>0', since=nside)
    else:
        E.claim_true('finite', bool(_np.all(_np.isfinite(_np.asarray(val, dtype=float)))))


def nfjc_history(E, N):
    """the same NFJC object evaluated on two arrays of equal length sharing their first wavenumber: the second result is
    that of the second array (symbolic: it mentions the new wavenumber and not the old one; replay: equals a fresh object)"""
    import warnings
    k1 = E.arr('k', 2, pos=True, default=0.35)
    if not E.sym and 'k_1' not in E.values:
        k1[1] = 2.3
    k2 = _np.empty(2, dtype=k1.dtype); k2[0] = k1[0]; k2[1] = E.real('k_other', pos=True, default=5.7)
    with warnings.catch_warnings():
        warnings.simplefilter('ignore')
        om = pyPRISM.omega.NonOverlappingFreelyJointedChain(length=N, l=1.0)
        a = om.calculate(k1); a = [a[0], a[1]]
        b = om.calculate(k2)
        if not E.sym:
            fresh = pyPRISM.omega.NonOverlappingFreelyJointedChain(length=N, l=1.0).calculate(k2)
    E.reachable('nfjc-history')
    E.claim_eq('same-k-same-value', b[0], a[0])
    if E.sym:
        def deep_vars(sr):
            vs = _vars(sr.n) | _vars(sr.d)
            for nm in E.ctx.uf:
                for arg, v in E.ctx.uf[nm]:
                    if str(v.n) in vs:
                        vs |= _vars(arg.n) | _vars(arg.d)
            return vs
        vb = deep_vars(SR.lift(b[1]))
        E.claim_true('second-array-value-is-a-function-of-the-new-k-only', 'k_other' in vb and 'k_1' not in vb)
    else:
        E.claim('second-array-as-on-a-fresh-object[0]', E.eq(b[0], fresh[0]))
        E.claim('second-array-value-is-a-function-of-the-new-k-only', E.eq(b[1], fresh[1]))


def aliases(E):
    E.claim_true('FJC-is-FreelyJointedChain', issubclass(pyPRISM.omega.FJC, pyPRISM.omega.FreelyJointedChain) and pyPRISM.omega.FJC.calculate is pyPRISM.omega.FreelyJointedChain.calculate)
    E.claim_true('NFJC-is-NonOverlappingFreelyJointedChain', issubclass(pyPRISM.omega.NFJC, pyPRISM.omega.NonOverlappingFreelyJointedChain))


# ----------------------------------------------------------------------------- floating point: cancellation in the closed forms

def closed_fp(E, model, N):
    """machine arithmetic: the closed form (1 - E^2 - 2E/N + 2E^(N+1)/N)/(1-E)^2 evaluated in doubles vs the pair sum.
    The real calculate() is executed on Float64 terms; the transcendental call (np.exp / np.sin(kl)/(kl)) is stubbed by
    'any double E in [0.5, 1)'. Obligation: relative deviation from the (well-conditioned) pair-sum polynomial <= 1e-3."""
    import z3, math
    from vsym import fp
    import importlib
    if not E.sym:
        Ev = E.real('E', default=0.9)
        s = 1.0
        if model == 'Gaussian':
            k = math.sqrt(-6.0 * math.log(Ev)) / s
            om = pyPRISM.omega.Gaussian(sigma=s, length=N)
            Ek = math.exp(-k * k * s * s / 6.0)
        else:
            # E = sin(x)/x with x = k*l small: x ~ sqrt(6(1-E))
            x = math.sqrt(6.0 * (1.0 - Ev)); k = x / s
            om = pyPRISM.omega.FreelyJointedChain(length=N, l=s)
            Ek = math.sin(k * s) / (k * s)
        val = om.calculate(_np.array([k]))[0]
        ps = pair_sum(N, lambda n: Ek ** n)
        E.claim_true('finite', bool(_np.isfinite(val)))
        E.claim_true('closed-form-within-1e-3-of-pair-sum', bool(_np.isfinite(val)) and abs(val - ps) <= 1e-3 * ps)
        E.claim_true('closed-form-within-[0.999,1.001N]-as-the-pair-sum-is', bool(_np.isfinite(val)) and 0.999 <= val <= 1.001 * N)
        E.claim_true('omega<=N', bool(_np.isfinite(val)) and val <= N * (1 + 1e-9))
        return
    mod = importlib.import_module('pyPRISM.omega.Gaussian' if model == 'Gaussian' else 'pyPRISM.omega.FreelyJointedChain')
    Ev = z3.FP('E', fp.F64)

    class NPX:
        def __getattr__(self, k):
            return getattr(_np, k)

        def exp(self, x):
            out = _np.empty(_np.shape(x), dtype=object); out.fill(fp.SF(Ev)); return out

        def sin(self, x):
            # FJC: E = np.sin(k*l)/(k*l); the quotient is stubbed as a whole: sin returns E*(k*l) so that the division gives ~E.
            # Simpler and exact for the purpose: return an object whose division by anything yields E
            class _Q:
                def __truediv__(s_, o):
                    return fp.SF(Ev)
            out = _np.empty(_np.shape(x), dtype=object); out.fill(_Q()); return out
    saved = mod.np
    mod.np = NPX()
    try:
        om = pyPRISM.omega.Gaussian(sigma=fp.SF(fp.fv(1.0)), length=N) if model == 'Gaussian' else pyPRISM.omega.FreelyJointedChain(length=N, l=fp.SF(fp.fv(1.0)))
        karr = _np.empty(1, dtype=object); karr[0] = fp.SF(z3.FP('k', fp.F64))
        val = om.calculate(karr)[0]
    finally:
        mod.np = saved
    # the pair sum lies in [1, N] for E in (0,1): necessary conditions of "equals the pair sum", posed as two separate
    # Float64 queries (each decided by cvc5 in about a minute; a combined relative-deviation query is not)
    # E <= 1 - 1.67e-9 keeps k*sigma >= 1e-4 (the lower end of the property's k range for sigma = 1)
    lo_E = (1.0 - 3e-9) if E.inst.get('narrow') else 0.5
    pre = [z3.fpGEQ(Ev, fp.fv(lo_E)), z3.fpLEQ(Ev, fp.fv(1.0 - 1.67e-9))]
    key = 'closed-form-within-[0.999,1.001N]-as-the-pair-sum-is'
    r = 'unsat'; vals = {}
    for bad in (z3.fpLT(val.t, fp.fv(0.999)), z3.fpGT(val.t, fp.fv(N * 1.001))):
        r1, v1 = fp.solve_fp(pre + [bad], ['E'], timeout_s=max(60, int(E.timeout_ms / 2000)))
        E.stats['queries'] += 1
        if r1 == 'sat':
            r, vals = r1, v1; break
        if r1 != 'unsat':
            r = 'unknown'
    if r == 'unsat':
        E.results.append(dict(key=key, verdict='holds', s=0, path='', canary=False)); return
    if r == 'sat' and 'E' in vals:
        import fractions
        pth = E._replay(key, {'E': str(fractions.Fraction(vals['E']))})
        if pth:
            for f in E.violations[-1]['failed']:
                E.results.append(dict(key=f, verdict='violation', s=0, path='', canary=False, replay=pth))
            return
        # the pow stub may mislead: try the classical witnesses of the same region
        for cand in (1.0 - 1.67e-9, 1.0 - 2.0 ** -27, 1.0 - 2.0 ** -25):
            pth = E._replay(key, {'E': str(fractions.Fraction(cand))})
            if pth:
                for f in E.violations[-1]['failed']:
                    E.results.append(dict(key=f, verdict='violation', s=0, path='', canary=False, replay=pth))
                return
        E.results.append(dict(key=key, verdict='sat-not-reproduced', s=0, path='', canary=False)); return
    E.results.append(dict(key=key, verdict='unknown', s=0, path='', canary=False))
