"""C07 - Domain grids, setter histories, exact round trip, linearity, MatrixArray transforms."""
import numpy as _np, itertools
import pyPRISM
from pyPRISM.core.Space import Space
from pyPRISM.core.MatrixArray import MatrixArray

PROP = 'C07'
BATCH = 6
TIMEOUT = {'quick': 600, 'thorough': 2400}
BOUNDS = dict(quick='lengths 1-4; constructor from dr or dk followed by every setter sequence (dr=v, dk=v, length=L) of depth <=2; round trip / linearity with exact DST weights for N in 1..6; MatrixArray transforms rank 1-3, N=2',
              thorough='setter sequences of depth 3; MatrixArray transforms also N=3')
OUTSIDE = ['lengths above 6 for the exact round trip (DST weights are encoded as exact algebraic numbers for N<=6); the floating-point grid (np.arange length, ulp-level spacing) is the separate FP obligation family C07.grid',
           'rounding error of the transforms']
ASSUMPTIONS = ['scipy.fftpack.dst types 2/3 are replaced by their documented sine sums with exact algebraic weights (differential-tested against scipy each run)',
               'np.arange(a, b, s) with symbolic arguments has numpy\'s documented length ceil((b-a)/s) (Real model)']

LENS = (1, 2, 3, 4)


def instances(tier):
    out = []
    depth = 2 if tier == 'quick' else 3
    ops = [('dr', None), ('dk', None)] + [('length', L) for L in LENS]
    for ctor in ('dr', 'dk'):
        for L0 in (LENS if tier == 'thorough' else (2, 3)):
            for d in range(0, depth + 1):
                for seq in itertools.product(ops, repeat=d):
                    # skip no-op length assignments to keep the count down (same length twice in a row)
                    nm = '>'.join('%s%s' % (o, '' if v is None else v) for o, v in seq)
                    out.append(dict(name='setters[%s,L%d,%s]' % (ctor, L0, nm), fn='setter_history', args=dict(ctor=ctor, L0=L0, seq=[list(x) for x in seq])))
    for N in LENS + (5, 6):
        for ctor in ('dr', 'dk'):
            out.append(dict(name='roundtrip[N%d,%s]' % (N, ctor), fn='roundtrip', args=dict(N=N, ctor=ctor), query_timeout_ms=180000, timeout=900))
    for rank in (1, 2, 3):
        for N in ((2,) if tier == 'quick' else (2, 3)):
            out.append(dict(name='matrixarray[r%d,N%d]' % (rank, N), fn='matrixarray', args=dict(rank=rank, N=N), query_timeout_ms=120000))
    for layout in ('swapaxes', 'T', 'subblock'):
        out.append(dict(name='matrixarray[r2,N2,layout=%s]' % layout, fn='matrixarray', args=dict(rank=2, N=2, layout=layout), query_timeout_ms=120000))
    out.append(dict(name='ctor-errors', fn='ctor_errors', args={}))
    for how in ('dr', 'dk'):
        out.append(dict(name='definition-uf[N7,%s]' % how, fn='definition_n7', args=dict(how=how), dst_mode='uf', sin_exact=[7, [2]], query_timeout_ms=240000, timeout=1500))
    for L0 in (2, 3):
        for op in ('dr', 'dk', 'length'):
            out.append(dict(name='setters[int-dr,L%d,%s]' % (L0, op), fn='setter_history', args=dict(ctor='int-dr', L0=L0, seq=[[op, 3 if op == 'length' else None], ['dr', None]])))
    for N in ((2, 3, 5, 50) if tier == 'quick' else (2, 3, 5, 6, 9, 25, 50, 100, 1000, 1024, 4096)):
        for ctor in ('dr', 'dk'):
            out.append(dict(name='grid-fp[N%d,%s]' % (N, ctor), fn='grid_fp', args=dict(N=N, ctor=ctor), query_timeout_ms=300000 if tier == 'quick' else 1200000, timeout=2000 if tier == 'quick' else 6000))
    return out


def claim_fresh(E, tag, D):
    """D is indistinguishable from a freshly constructed Domain(length=D.length, dr=D.dr)"""
    L = D.length
    F = pyPRISM.Domain(length=L, dr=D.dr)
    pi = E.pi()
    E.claim_true(tag + ':len(r)==length', len(D.r) == L)
    E.claim_true(tag + ':len(k)==length', len(D.k) == L)
    E.claim_eq(tag + ':dk*dr*length==pi', D.dk * D.dr * L, pi)
    E.claim_eq(tag + ':dk==fresh.dk', D.dk, F.dk)
    if len(D.r) == L and len(D.k) == L and len(F.r) == L and len(F.k) == L:
        for i in range(L):
            E.claim_eq(tag + ':r[%d]==(i+1)dr' % i, D.r[i], D.dr * (i + 1))
            E.claim_eq(tag + ':k[%d]==(j+1)dk' % i, D.k[i], D.dk * (i + 1))
            E.claim_eq(tag + ':k[%d]==fresh' % i, D.k[i], F.k[i])
            E.claim_eq(tag + ':DST_II[%d]' % i, D.DST_II_coeffs[i], F.DST_II_coeffs[i])
            E.claim_eq(tag + ':DST_III[%d]' % i, D.DST_III_coeffs[i], F.DST_III_coeffs[i])
            E.claim_eq(tag + ':DST_II[%d]==2pi*r*dr' % i, D.DST_II_coeffs[i], 2.0 * pi * D.dr * (i + 1) * D.dr)
            E.claim_eq(tag + ':DST_III[%d]==k*dk/4pi^2' % i, D.DST_III_coeffs[i], D.dk * (i + 1) * D.dk / (4.0 * pi * pi))
            E.claim_eq(tag + ':long_r[%d]' % i, D.long_r[i, 0, 0], D.dr * (i + 1))
        E.claim_true(tag + ':long_r-shape', D.long_r.shape == (L, 1, 1))


def definition_n7(E, how):
    """a length that is not 5-smooth: both transforms still are the sine sums of their definition on the Domain's own grid
    (C08's obligation, here for N=7 with Ackermannised sines); with the orthogonality of the DST this is the inverse pair"""
    from .C08 import riemann
    riemann(E, 7, how)


def make_domain(E, ctor, L, name='v0'):
    if ctor == 'int-dr':
        return pyPRISM.Domain(length=L, dr=2), 2          # a spacing given as a Python int (integer-typed grid arrays)
    v = E.real(name, pos=True, default=0.25)
    return (pyPRISM.Domain(length=L, dr=v) if ctor == 'dr' else pyPRISM.Domain(length=L, dk=v)), v


def setter_history(E, ctor, L0, seq):
    D, v0 = make_domain(E, ctor, L0)
    E.reachable('setters')
    E.claim_eq('ctor:%s-kept' % ctor, D.dk if ctor == 'dk' else D.dr, v0)
    E.claim_true('ctor:length-kept', D.length == L0)
    claim_fresh(E, 'ctor', D)
    for step, (op, val) in enumerate(seq):
        tag = 's%d:%s' % (step, op)
        if op == 'length':
            old_dr = D.dr
            D.length = val
            E.claim_true(tag + ':length-set', D.length == val)
            E.claim_eq(tag + ':dr-kept', D.dr, old_dr)
        else:
            v = E.real('v%d' % (step + 1), pos=True, default=0.1 * (step + 2))
            oldL = D.length
            setattr(D, op, v)
            E.claim_eq(tag + ':value-kept', getattr(D, op), v)
            E.claim_true(tag + ':length-kept', D.length == oldL)
        claim_fresh(E, tag, D)
    E.claim('canary', E.eq(D.k[0], D.dk * 2.0), canary=True)


def roundtrip(E, N, ctor):
    D, v0 = make_domain(E, ctor, N)
    f = E.arr('f', N, default=0.7); g = E.arr('g', N, default=-0.2)
    a = E.real('a', default=1.5); b = E.real('b', default=-0.5)
    f_snap = [f[i] for i in range(N)]
    E.reachable('roundtrip')
    F = D.to_fourier(f)
    F_snap = [F[i] for i in range(N)]
    back = D.to_real(F)
    back_snap = [back[i] for i in range(N)]
    E.claim_true('shapes', _np.shape(F) == (N,) and _np.shape(back) == (N,))
    for i in range(N):
        E.claim_eq('to_real(to_fourier(f))[%d]' % i, back[i], f[i])
    G = D.to_real(g)
    back2 = D.to_fourier(G)
    for i in range(N):
        E.claim_eq('to_fourier(to_real(F))[%d]' % i, back2[i], g[i])
    lin = D.to_fourier(a * f + b * g)
    Fg = D.to_fourier(g)
    linr = D.to_real(a * f + b * g)
    Rf = D.to_real(f)
    for i in range(N):
        E.claim_eq('fourier-linear[%d]' % i, lin[i], a * F[i] + b * Fg[i])
        E.claim_eq('real-linear[%d]' % i, linr[i], a * Rf[i] + b * G[i])
    E.claim_true('input-untouched', all((f[i] is f_snap[i]) if E.sym else (f[i] == f_snap[i]) for i in range(N)))
    E.claim_true('result-fresh', not _np.shares_memory(F, f) and not _np.shares_memory(back, F))
    # earlier results are not overwritten by later transforms on the same Domain
    F_again = D.to_fourier(f)
    for i in range(N):
        E.claim_eq('repeatable[%d]' % i, F_again[i], F_snap[i])
        E.claim_eq('earlier-result-not-overwritten:F[%d]' % i, F[i], F_snap[i])
        E.claim_eq('earlier-result-not-overwritten:back[%d]' % i, back[i], back_snap[i])
    E.claim_true('results-are-distinct-buffers', not _np.shares_memory(F, F_again) and not _np.shares_memory(F, back))
    E.claim('canary', E.eq(back[0], 2.0 * f[0]), canary=True)


def matrixarray(E, rank, N, layout='C'):
    types = ['A', 'B', 'C'][:rank]
    D, v0 = make_domain(E, 'dr', N)
    if layout == 'C':
        data = _np.empty((N, rank, rank), dtype=object if E.sym else float)
    elif layout == 'swapaxes':
        data = _np.swapaxes(_np.empty((N, rank, rank), dtype=object if E.sym else float), 1, 2)      # a view numpy cannot reshape in place
    elif layout == 'T':
        data = _np.empty((rank, rank, N), dtype=object if E.sym else float).T
    else:
        data = _np.empty((N, rank, rank + 1), dtype=object if E.sym else float)[:, :, :rank]          # sub-block of a wider table
    for i in range(rank):
        for j in range(i, rank):
            col = E.arr('m%d%d' % (i, j), N, default=0.3 + 0.1 * i + 0.05 * j)
            data[:, i, j] = col; data[:, j, i] = col
    pre = [[[data[l, i, j] for j in range(rank)] for i in range(rank)] for l in range(N)]
    M = MatrixArray(length=N, rank=rank, data=(data.copy() if layout == 'C' else data), space=Space.Real, types=types)
    E.reachable('matrixarray')
    r = D.MatrixArray_to_fourier(M)
    E.claim_true('to_fourier:flag', M.space == Space.Fourier)
    E.claim_true('to_fourier:returns-None-inplace', r is None)
    want = {}
    for i in range(rank):
        for j in range(rank):
            col = _np.array([pre[l][i][j] for l in range(N)], dtype=object if E.sym else float)
            want[i, j] = D.to_fourier(col)
            for l in range(N):
                E.claim_eq('to_fourier:pair[%d,%d][%d]' % (i, j, l), M.data[l, i, j], want[i, j][l])
                E.claim_eq('to_fourier:symmetric[%d,%d][%d]' % (i, j, l), M.data[l, i, j], M.data[l, j, i])
    E.expect_raises('to_fourier-again-raises-ValueError', (ValueError,), lambda: D.MatrixArray_to_fourier(M))
    E.claim_true('refused-leaves-flag', M.space == Space.Fourier)
    D.MatrixArray_to_real(M)
    E.claim_true('to_real:flag', M.space == Space.Real)
    for i in range(rank):
        for j in range(rank):
            for l in range(N):
                E.claim_eq('roundtrip[%d,%d][%d]' % (i, j, l), M.data[l, i, j], pre[l][i][j])
    E.expect_raises('to_real-again-raises-ValueError', (ValueError,), lambda: D.MatrixArray_to_real(M))
    for i in range(rank):
        for j in range(rank):
            for l in range(N):
                E.claim_eq('refused-leaves-data[%d,%d][%d]' % (i, j, l), M.data[l, i, j], pre[l][i][j])
    E.claim('canary', E.eq(M.data[0, 0, 0], pre[0][0][0] + 1.0), canary=True)


def ctor_errors(E):
    E.expect_raises('neither-dr-nor-dk', (ValueError,), lambda: pyPRISM.Domain(length=4))
    E.expect_raises('both-dr-and-dk', (ValueError,), lambda: pyPRISM.Domain(length=4, dr=0.1, dk=0.1))


# ----------------------------------------------------------------------------- floating-point grid (symx-FP)

def grid_fp(E, N, ctor):
    """machine arithmetic: len(r) == len(k) == N for EVERY double spacing in [1e-3, 1] (a float np.arange can gain a point),
    r_i and k_j are the correctly rounded (i+1)*spacing. The real Domain code is executed on a symbolic Float64."""
    import z3, time, fractions
    from vsym import fp
    lo, hi = 1e-3, 1.0
    if not E.sym:
        v = E.real('v0', default=0.1)
        D = pyPRISM.Domain(length=N, dr=v) if ctor == 'dr' else pyPRISM.Domain(length=N, dk=v)
        E.claim_true('len(r)==length', len(D.r) == N)
        E.claim_true('len(k)==length', len(D.k) == N)
        if len(D.r) == N and len(D.k) == N:
            E.claim_true('r[i]==(i+1)*dr (2 ulp)', all(abs(D.r[i] - (i + 1) * D.dr) <= 2 * _np.spacing((i + 1) * D.dr) for i in range(N)))
            E.claim_true('k[j]==(j+1)*dk (2 ulp)', all(abs(D.k[i] - (i + 1) * D.dk) <= 2 * _np.spacing((i + 1) * D.dk) for i in range(N)))
        return
    import pyPRISM.core.Domain as DM
    v = z3.FP('v0', fp.F64)
    pre = [z3.fpGEQ(v, fp.fv(lo)), z3.fpLEQ(v, fp.fv(hi))]
    npf = fp.NPF(N)
    saved = DM.np
    DM.np = npf
    try:
        D = pyPRISM.Domain(length=N, dr=fp.SF(v)) if ctor == 'dr' else pyPRISM.Domain(length=N, dk=fp.SF(v))
    finally:
        DM.np = saved
    E.claim_true('grids-built', len(D.r) == N and len(D.k) == N)
    E.notes.append('float aranges met: %d' % len(npf.obligations))
    for n_ob, ob in enumerate(npf.obligations):
        key = 'float-arange-length==%d[%d]' % (N, n_ob)
        sv = z3.Solver(); sv.set('timeout', int(E.timeout_ms))
        sv.add(*pre); sv.add(z3.Not(z3.fpEQ(ob.length_term, fp.fv(N))))
        t0 = time.time(); r = str(sv.check()); dt = time.time() - t0
        E.stats['queries'] += 1; E.stats['solver_s'] += dt; E.stats['max_query_s'] = max(E.stats['max_query_s'], dt)
        rec = dict(key=key, verdict='holds' if r == 'unsat' else 'unknown', s=round(dt, 2), path='', canary=False)
        if r == 'sat':
            import struct
            bv = sv.model().eval(z3.fpToIEEEBV(v), model_completion=True).as_long()
            fval = struct.unpack('>d', bv.to_bytes(8, 'big'))[0]       # the model's double, bit for bit
            p = E._replay(key, {'v0': str(fractions.Fraction(fval))})
            if p:
                rec['verdict'] = 'violation'; rec['replay'] = p; rec['key'] = E.last_replay_key
            else:
                rec['verdict'] = 'sat-not-reproduced'
        E.results.append(rec)
    if not npf.obligations:
        # integer arange scaled by the spacing: the length is N by construction; every point is one correctly rounded product
        ok = all(z3.eq(D.r[i].t, z3.fpMul(fp.RNE, fp.fv(i + 1), D.dr.t)) or z3.eq(D.r[i].t, z3.fpMul(fp.RNE, D.dr.t, fp.fv(i + 1))) for i in range(N))
        ok2 = all(z3.eq(D.k[i].t, z3.fpMul(fp.RNE, fp.fv(i + 1), D.dk.t)) or z3.eq(D.k[i].t, z3.fpMul(fp.RNE, D.dk.t, fp.fv(i + 1))) for i in range(N))
        E.claim_true('r[i]-is-the-rounded-product-(i+1)*dr', ok)
        E.claim_true('k[j]-is-the-rounded-product-(j+1)*dk', ok2)
