"""C03 - hard-core exclusion: c + gamma = -1 at every core point of every evaluation; g = residual/r after solve."""
import numpy as _np
import pyPRISM
from pyPRISM.core.Space import Space
from .prism import build, pair_list, grid_r, sigma, ckey
from .common import record_closures
from . import C01 as _C01

PROP = 'C03'
TIMEOUT = {'quick': 900, 'thorough': 3000}
BOUNDS = dict(rank='1-2 (rank 2: one hard-core pair, the other pairs arbitrary soft)', N='3 (rank 1), 2 (rank 2): every core size 0..N via the diameter multiple',
              closures='all four with the hard-core flag over an arbitrary potential; PY and HNC without the flag over HardSphere / HardCoreLennardJones / Exponential (default and symbolic high_value)',
              x='arbitrary trial vector', preconditions='flag off: high_value/kT >= 746 (PY); additionally high_value/kT - gamma >= 746 at core points (HNC)')
OUTSIDE = ['MSA / MS without the flag (documented not to work on divergent potentials)', 'classification of a grid point that coincides with sigma only up to rounding (C10 contact, FP)',
           'the root finder between evaluations (stub, as in C01)']
ASSUMPTIONS = ['IEEE-double fact used for the flag-off cases: exp(t) == 0.0 for t <= -746 (numpy/libm underflow), exp(t) > 0 for t >= -745',
               'diameters are multiples of dr (core membership of every grid point decided)']

def PATCH_EXTRA(inst):
    return {'root': _C01.root_stub} if inst['fn'] == 'solved_step' else {}


def instances(tier):
    out = []
    CL = ['PercusYevick', 'HyperNettedChain', 'MeanSphericalApproximation', 'MartynovSarkisov']
    for cl in CL:
        for m in (1, 2, 3):
            out.append(dict(name='flag[r1,N3,%s,core%d]' % (cl, m), fn='eval_step', args=dict(rank=1, N=3, hard={'AA': dict(closure=cl, flag=True, pot='havoc')}, diam={'A': m})))
    for cl in ('PercusYevick', 'HyperNettedChain'):
        for pot in ('HardSphere', 'HardCoreLennardJones', 'Exponential'):
            for high in ('default', 'sym'):
                out.append(dict(name='noflag[r1,N3,%s,%s,high=%s]' % (cl, pot, high), fn='eval_step', exp_underflow=True,
                                args=dict(rank=1, N=3, hard={'AA': dict(closure=cl, flag=False, pot=pot, high=high)}, diam={'A': 2})))
    # rank 2: one hard pair among arbitrary soft ones (every position of the hard pair)
    for hp in ('AA', 'AB', 'BB'):
        out.append(dict(name='flag[r2,N2,hard=%s]' % hp, fn='eval_step', args=dict(rank=2, N=2, hard={hp: dict(closure='HyperNettedChain', flag=True, pot='havoc')}, diam={'A': 1, 'B': 2}), query_timeout_ms=120000))
        out.append(dict(name='noflag[r2,N2,hard=%s]' % hp, fn='eval_step', exp_underflow=True,
                        args=dict(rank=2, N=2, hard={hp: dict(closure='PercusYevick', flag=False, pot='HardSphere', high='default')}, diam={'A': 1, 'B': 2}), query_timeout_ms=120000))
    out.append(dict(name='flag[r2,N2,group-assign]', fn='eval_step', args=dict(rank=2, N=2, hard={'*': dict(closure='PercusYevick', flag=True, pot='HardSphere', high='sym')}, diam={'A': 1, 'B': 2}, group_assign=True)))
    out.append(dict(name='flag[r2,N2,explicit-potential-sigma]', fn='eval_step', args=dict(rank=2, N=2, hard={p: dict(closure=c, flag=True, pot='LennardJones') for p, c in (('AA', 'PercusYevick'), ('AB', 'HyperNettedChain'), ('BB', 'MeanSphericalApproximation'))},
                                                                                          diam={'A': 2, 'B': 2}, psigma={'AA': 1, 'AB': 1, 'BB': 1})))
    out.append(dict(name='flag[r1,N3,HyperNettedChain,domain-from-dk]', fn='eval_step', args=dict(rank=1, N=3, hard={'AA': dict(closure='HyperNettedChain', flag=True, pot='havoc')}, diam={'A': 2}, domain_from='dk')))
    out.append(dict(name='solved[r1,N3,domain-from-dk]', fn='solved_step', args=dict(rank=1, N=3, domain_from='dk'), query_timeout_ms=120000, timeout=1500))
    for rank, N in (((1, 3), (1, 2)) if tier == 'quick' else ((1, 3), (1, 2), (2, 2))):
        out.append(dict(name='solved[r%d,N%d]' % (rank, N), fn='solved_step', args=dict(rank=rank, N=N), query_timeout_ms=120000, timeout=1500))
    return out


def _build(E, rank, N, hard, diam, **bk):
    closures = {}; flags = {}; pots = {}
    for p, h in hard.items():
        closures[p] = h['closure']; flags[p] = h['flag']
        if h['pot'] != 'havoc':
            pots[p] = dict(kind=h['pot'], high=h.get('high', 'default'))
    for p in ('AA', 'AB', 'BB'):
        if p not in hard and '*' not in hard:
            closures[p] = 'HyperNettedChain'; flags[p] = False      # soft arbitrary pairs
    return build(E, rank, N, closures=closures, flags=flags, potentials=pots, diam=diam, **bk)


def eval_step(E, rank, N, hard, diam, **bk):
    B = _build(E, rank, N, hard, diam, **bk)
    P = B.S.createPRISM()
    rec = record_closures(P, B.types)
    n = rank
    x = E.arr('x', (N * n * n,), default=0.15)
    r = grid_r(B)
    # preconditions of the flag-off cases (stated in BOUNDS)
    for (a, b) in pair_list(B.types):
        p = ckey(a, b)
        h = hard.get(p) or hard.get('*')
        if h is None or h['flag']:
            continue
        ia, ib = B.types.index(a), B.types.index(b)
        # stated on the USER's parameters (overlap value and kT), not on what the code computed from them
        high = E.lookup('high' + B.uname[p]) if h.get('high') == 'sym' else E.const(1e6)
        for i in range(N):
            if bool(r[i] <= sigma(B, a, b)):
                if E.sym:
                    E.assume(high / B.kT >= 746.0)
                    if h['closure'] == 'HyperNettedChain':
                        E.assume(high / B.kT - x[i * n * n + ia * n + ib] / r[i] >= 746.0)
    P.cost(x)
    E.reachable('eval')
    ncore = 0
    canary_done = False
    for (a, b) in pair_list(B.types):
        p = ckey(a, b)
        h = hard.get(p) or hard.get('*')
        if h is None:
            continue
        ia, ib = B.types.index(a), B.types.index(b)
        got = rec[(a, b)]
        for i in range(N):
            if bool(r[i] <= sigma(B, a, b)):
                ncore += 1
                E.claim_eq('c+gamma=-1[%s][%d]' % (p, i), got['out'][i] + x[i * n * n + ia * n + ib] / r[i], -1.0)
        core = [i for i in range(N) if bool(r[i] <= sigma(B, a, b))]
        if core and not canary_done:
            canary_done = True
            i0 = core[0]
            E.claim('canary[%s]' % p, E.eq(got['out'][i0] + x[i0 * n * n + ia * n + ib] / r[i0], 0.0), canary=True)
    E.claim_true('some-core-point-covered', ncore > 0)


def solved_step(E, rank, N, **bk):
    """on a solved object (root stub as in C01): g = h+1 = fun/r at every core point of the hard pairs"""
    hard = {'AA': dict(closure='PercusYevick', flag=True, pot='havoc')}
    if rank == 2:
        hard['AB'] = dict(closure='HyperNettedChain', flag=True, pot='havoc')
    B = _build(E, rank, N, hard, {'A': 2, 'B': 1}, **bk)
    _C01.STUB_LOG.clear(); _C01.STUB_LOG['E'] = E
    n = rank
    guess = E.arr('g', (N * n * n,), default=0.0)
    P = B.S.solve(guess=guess, method='krylov', options={'disp': False})
    res = P.minimize_result
    E.reachable('solved')
    E.claim_true('totalCorr-in-real-space', P.totalCorr.space == Space.Real)
    r = grid_r(B)
    # a reference evaluation at the returned point gives handles on the intermediate H(k) terms (structurally the
    # same z3 terms), which are abstracted in the claims below: g = fun/r must hold whatever H(k) is
    xs = _C01.STUB_LOG['x1'] if E.sym else res.x
    P2 = B.S.createPRISM(); P2.cost(xs)
    inter = [v for v in (P2.totalCorr.data[idx] for idx in _np.ndindex(*P2.totalCorr.data.shape)) if hasattr(v, 'n')]
    k = 0
    for (a, b) in pair_list(B.types):
        p = ckey(a, b)
        if p not in hard:
            continue
        ia, ib = B.types.index(a), B.types.index(b)
        for i in range(N):
            if bool(r[i] <= sigma(B, a, b)):
                k += 1
                E.claim_eq('g=fun/r[%s][%d]' % (p, i), P.totalCorr.data[i, ia, ib] + 1.0, res.fun[i * n * n + ia * n + ib] / r[i], abstract=inter)
                E.claim_eq('g-symmetric[%s][%d]' % (p, i), P.totalCorr.data[i, ib, ia], P.totalCorr.data[i, ia, ib])
    E.claim_true('some-core-point-covered', k > 0)
    E.claim('canary', E.eq(P.totalCorr.data[0, 0, 0] + 1.0, 2.0 * res.fun[0] / r[0] + 1.0), canary=True)
