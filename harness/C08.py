"""C08 - to_fourier / to_real are the half-cell-shifted Riemann sums of the continuous 3-D radial
Fourier pair, with the prefactors 4*pi (forward) and 1/(2*pi^2) (backward) pinned separately."""
import numpy as _np
import pyPRISM

PROP = 'C08'
BATCH = 2
TIMEOUT = {'quick': 900, 'thorough': 2400}
BOUNDS = dict(N='1..6 grid points with exact sine values (quick 1..4, 6); N=7 (not 5-smooth) with Ackermannised sines whose arguments are merged when provably equal', domains='built from dr, from dk, and after one re-assignment of dr, dk or length', f='arbitrary real arrays', spacing='any positive dr / dk')
OUTSIDE = ['the convergence statement itself (error <= const*dr at fixed k or r, decreasing under refinement, k->0 -> volume integral) for the analytic families: analysis over transcendental integrands on refinement families is not encodable; what is decided is that each transform IS the Riemann sum of its continuous integral with the right prefactor, from which O(dr) consistency is the textbook step',
           'N > 6', 'rounding error']
ASSUMPTIONS = ['oracle (written from the continuous formulas): F(k_j) = 4*pi*dr*Sum_n r_n f_n sin(k_j(r_n-dr/2))/k_j ; f(r_i) = dk/(2*pi^2 r_i) * Sum\'_n k_n F_n sin(k_n(r_i-dr/2)) (last term halved), on the harness\'s own grid r_n=(n+1)dr, k_j=(j+1)pi/(N dr)',
               'sin of the oracle is an Ackermann variable linked to exact algebraic values at rational multiples of pi (the solver has to prove the arguments equal pi*p/q, which is where dk*dr*N=pi enters)',
               'scipy.fftpack.dst replaced by its documented sine sums with exact weights (differential-tested each run)']


def instances(tier):
    out = []
    Ns = (1, 2, 3, 4, 6) if tier == 'quick' else (1, 2, 3, 4, 5, 6)
    for N in Ns:
        for how in ('dr', 'dk', 'dr>dr', 'dr>dk', 'dk>dr', 'dr>length', 'dk>length'):
            if tier == 'quick' and N in (1, 6) and how not in ('dr', 'dk'):
                continue
            out.append(dict(name='riemann[N%d,%s]' % (N, how), fn='riemann', args=dict(N=N, how=how), sin_exact=[N, [2 * N]],
                            query_timeout_ms=240000, timeout=1500))
    for N in (7,):
        for how in ('dr', 'dk'):
            out.append(dict(name='riemann-uf[N%d,%s]' % (N, how), fn='riemann', args=dict(N=N, how=how), dst_mode='uf', sin_exact=[N, [2]], query_timeout_ms=240000, timeout=1500))
    return out


def riemann(E, N, how):
    steps = how.split('>')
    v0 = E.real('v0', pos=True, default=0.25)
    L0 = N if 'length' not in steps else (N + 1 if N < 3 else N - 1)
    D = pyPRISM.Domain(length=L0, dr=v0) if steps[0] == 'dr' else pyPRISM.Domain(length=L0, dk=v0)
    pi = E.pi()
    dr = v0 if steps[0] == 'dr' else pi / (v0 * L0)
    for st in steps[1:]:
        if st == 'length':
            D.length = N                       # dr is kept
        else:
            v1 = E.real('v1', pos=True, default=0.4)
            setattr(D, st, v1)
            dr = v1 if st == 'dr' else pi / (v1 * D.length)
    dk = pi / (dr * N)
    r = [dr * (n + 1) for n in range(N)]
    k = [dk * (j + 1) for j in range(N)]
    f = E.arr('f', N, default=0.7)
    F = E.arr('F', N, default=-0.4)
    E.reachable('riemann')
    E.claim_true('grid-lengths', len(D.r) == N and len(D.k) == N)
    for i in range(N):
        E.claim_eq('r[%d]' % i, D.r[i], r[i])
        E.claim_eq('k[%d]' % i, D.k[i], k[i])
    fw = D.to_fourier(f)
    bw = D.to_real(F)
    for j in range(N):
        acc = None
        for n in range(N):
            t = r[n] * f[n] * E.sin(k[j] * (r[n] - dr / 2.0))
            acc = t if acc is None else acc + t
        E.claim_eq('forward[%d]==4pi*dr*Sum r f sin(k(r-dr/2))/k' % j, fw[j], 4.0 * pi * dr * acc / k[j])
    for i in range(N):
        acc = None
        for n in range(N):
            t = k[n] * F[n] * E.sin(k[n] * (r[i] - dr / 2.0))
            if n == N - 1:
                t = t / 2.0
            acc = t if acc is None else acc + t
        E.claim_eq('backward[%d]==dk/(2pi^2 r)*Sum\' k F sin(k(r-dr/2))' % i, bw[i], dk * acc / (2.0 * pi * pi * r[i]))
    # a family of functions stacked as rows of one 2-D array is transformed row by row (along the grid axis)
    stack = _np.empty((2, N), dtype=f.dtype)
    for n in range(N):
        stack[0, n] = f[n]; stack[1, n] = F[n]
    fw2 = D.to_fourier(stack); bw2 = D.to_real(stack)
    E.claim_true('stacked-shape', _np.shape(fw2) == (2, N) and _np.shape(bw2) == (2, N))
    if _np.shape(fw2) == (2, N) and _np.shape(bw2) == (2, N):
        for n in range(N):
            E.claim_eq('stacked-forward-row0[%d]' % n, fw2[0, n], fw[n])
            E.claim_eq('stacked-backward-row1[%d]' % n, bw2[1, n], bw[n])
    # integer-valued input (an indicator function) is transformed like the same values as floats
    fi = _np.arange(1, N + 1)
    gi = D.to_fourier(fi); gf = D.to_fourier(fi.astype(float) if not E.sym else _np.array([E.const(float(v)) for v in fi], dtype=object))
    for n in range(N):
        E.claim_eq('integer-input[%d]' % n, gi[n], gf[n])
    E.claim('canary-forward-prefactor-2pi', E.eq(fw[0], 2.0 * pi * dr * sum((r[n] * f[n] * E.sin(k[0] * (r[n] - dr / 2.0)) for n in range(1, N)), r[0] * f[0] * E.sin(k[0] * (r[0] - dr / 2.0))) / k[0]), canary=True)
