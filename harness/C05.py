"""C05 - every calculate.* quantity equals its definition; cross identities."""
import numpy as _np, itertools
import pyPRISM
from pyPRISM.core.Space import Space
from .calc import setup, apply, CALC_OPS, claim_abstract_state, S_oracle, kgrid
from .prism import build, pair_list, ckey, rho_site, rho_pair
from .common import record_closures, mm

PROP = 'C05'
BATCH = 3
TIMEOUT = {'quick': 900, 'thorough': 3000}
BOUNDS = dict(rank='2-3 for every function, 4 for the pair loops (chi, spinodal_condition, second_virial)', N=3, spaces='every function in every space-flag state it accepts (quick: all-Fourier and all-Real; thorough: all 8)',
              data='hand-populated symmetric H(k), C(k) (arbitrary symbols); omega, densities, diameters, kT as createPRISM made them from arbitrary user symbols', flags='both values of normalize, extrapolate, closure')
OUTSIDE = ['N>3 (the three-point extrapolation needs exactly the three lowest k)', 'rank>4', 'rounding error; log/sqrt are Ackermannised (g>0 and R>0 are side conditions)']
ASSUMPTIONS = ['np.polyfit(x,y,2)/np.poly1d are replaced by exact least squares (normal equations, Cramer) - the oracle is Lagrange interpolation, a different route',
               'chi uses rho = total site density of the system (PRISM.sys.density.total), as documented']


def instances(tier):
    out = []
    states = [('F', 'F', 'F'), ('R', 'R', 'F')] if tier == 'quick' else [s for s in itertools.product('FR', repeat=3)]
    for rank in (2, 3):
        for op in CALC_OPS:
            for fl in states:
                if rank == 3 and tier == 'quick' and fl != ('F', 'F', 'F') and not op.startswith(('chi', 'spinodal', 'solvation[HNC]')):
                    continue
                out.append(dict(name='def[r%d,%s,%s]' % (rank, op, ''.join(fl)), fn='single', args=dict(rank=rank, op=op, flags=list(fl)), query_timeout_ms=120000, timeout=1500))
    for op in ('chi[extrap]', 'chi[curve]', 'spinodal[extrap]', 'second_virial[extrap]', 'second_virial[k0]'):
        out.append(dict(name='def[r4,%s,FFF]' % op, fn='single', args=dict(rank=4, op=op, flags=['F', 'F', 'F']), query_timeout_ms=120000, timeout=1500))
    out.append(dict(name='chi-equal-volumes[r2]', fn='chi_equal', args=dict(rank=2), query_timeout_ms=120000))
    out.append(dict(name='chi-equal-volumes[r3]', fn='chi_equal', args=dict(rank=3), query_timeout_ms=120000))
    out.append(dict(name='selfconsistent[r2]', fn='selfconsistent', args=dict(rank=2, N=2), query_timeout_ms=120000))
    out.append(dict(name='selfconsistent[r1]', fn='selfconsistent', args=dict(rank=1, N=3), query_timeout_ms=120000))
    return out


def single(E, rank, op, flags):
    St = setup(E, rank, 3, flags=tuple(flags), positive_g=(op == 'pmf'))
    E.reachable('single')
    apply(St, op, op)
    apply(St, op, op + '#again')        # a second call on the same object returns the same definition (nothing was consumed or rescaled)
    # canary: the structure factor with a wrong density factor / B2 with a wrong sign must be refuted
    if op == 'structure_factor[norm]':
        S = pyPRISM.calculate.structure_factor(St.P)
        E.claim('canary', E.eq(S.data[0, 0, 1], S_oracle(St, 'A', 'B', 0, False)), canary=True)
    if op == 'second_virial[k0]':
        B2 = pyPRISM.calculate.second_virial(St.P, extrapolate=False)
        E.claim('canary', E.eq(B2['A', 'B'], 0.5 * St.H['AB'][0]), canary=True)


def chi_equal(E, rank):
    """equal site volumes: chi = (rho/2)(C_aa + C_bb - 2 C_ab)"""
    St = setup(E, rank, 3, diam={t: 2 for t in 'ABCD'})
    E.reachable('chi-equal')
    res = pyPRISM.calculate.chi(St.P, extrapolate=False)
    B = St.B
    rtot = sum((B.rho[t] for t in St.types[1:]), B.rho[St.types[0]])
    for i, a in enumerate(St.types):
        for b in St.types[i + 1:]:
            for j in range(3):
                E.claim_eq('chi=(rho/2)(Caa+Cbb-2Cab)[%s,%s][%d]' % (a, b, j), res[a, b][j], 0.5 * rtot * (St.C[ckey(a, a)][j] + St.C[ckey(b, b)][j] - 2.0 * St.C[ckey(a, b)][j]))
    E.claim('canary', E.eq(res['A', 'B'][0], 0.5 * rtot * (St.C['AA'][0] + St.C['BB'][0] + 2.0 * St.C['AB'][0])), canary=True)


def selfconsistent(E, rank, N):
    """after a real cost(x): (I - Omega C) S_unnormalised = Omega at every k"""
    cls = {'AA': 'PercusYevick', 'AB': 'HyperNettedChain', 'BB': 'PercusYevick'}
    B = build(E, rank, N, closures=cls, flags={'AA': True})
    P = B.S.createPRISM()
    x = E.arr('x', (N * rank * rank,), default=0.15)
    P.cost(x)
    E.reachable('selfconsistent')
    S = pyPRISM.calculate.structure_factor(P, normalize=False)
    n = rank; types = B.types
    cabs = [v for v in (P.directCorr.data[idx] for idx in _np.ndindex(*P.directCorr.data.shape)) if hasattr(v, 'n')]
    for j in range(N):
        W = [[B.w[ckey(a, b)][j] * rho_site(B, a, b) for b in types] for a in types]
        C = [[P.directCorr.data[j, ia, ib] for ib in range(n)] for ia in range(n)]
        WC = mm(W, C)
        IWC = [[(1.0 if i == l else 0.0) - WC[i][l] for l in range(n)] for i in range(n)]
        Sm = [[S.data[j, ia, ib] for ib in range(n)] for ia in range(n)]
        L = mm(IWC, Sm)
        for i in range(n):
            for l in range(n):
                E.claim_eq('(I-WC)S=W[k%d][%d,%d]' % (j, i, l), L[i][l], W[i][l], abstract=cabs)
                E.claim_eq('S-symmetric[k%d][%d,%d]' % (j, i, l), S.data[j, i, l], S.data[j, l, i], abstract=cabs)
    E.claim('canary', E.eq(S.data[0, 0, 0], B.w['AA'][0] * B.rho['A']), canary=True)
