"""Shared machinery of C05 / C06: a PRISM object made by the real createPRISM whose stored arrays are hand-populated
from base symbols (Fourier-space H(k), C(k); omega as the constructor made it) in any combination of space flags,
an interpreter for sequences of calculate.* calls / user transforms, and oracles for every returned quantity written
from the definitions in the property text as functions of the base symbols only."""
import numpy as _np
import pyPRISM
from pyPRISM.core.Space import Space
from pyPRISM.core.MatrixArray import MatrixArray
from pyPRISM.core.PairTable import PairTable
from .prism import build, pair_list, ckey, rho_site, rho_pair, grid_r, TYPES
from .common import oracle_fourier, oracle_real, mm

OPS = ['pair_correlation', 'pmf', 'structure_factor[norm]', 'structure_factor[raw]', 'second_virial[extrap]', 'second_virial[k0]',
       'chi[extrap]', 'chi[curve]', 'spinodal[extrap]', 'spinodal[curve]', 'solvation[HNC]', 'solvation[PY]',
       'flip:totalCorr', 'flip:directCorr', 'flip:omega']
CALC_OPS = OPS[:12]


class State:
    pass


def setup(E, rank, N, flags=('F', 'F', 'F'), diam=None, positive_g=False):
    """flags: space of (totalCorr, directCorr, omega) at the start: 'F' Fourier | 'R' Real."""
    B = build(E, rank, N, diam=diam or {t: 1 + (i % 2) for i, t in enumerate(TYPES[:rank])}, reassign=True)
    P = B.S.createPRISM()
    St = State(); St.B = B; St.P = P; St.N = N; St.n = rank; St.types = B.types; St.E = E
    n = rank
    # base symbols: symmetric H(k), C(k)
    St.H = {}; St.C = {}; St.W = {}
    for (a, b) in pair_list(B.types):
        p = ckey(a, b)
        St.H[p] = [E.real('H%s_%d' % (p, j), default=0.05 * (j + 1) - 0.3) for j in range(N)]
        St.C[p] = [E.real('C%s_%d' % (p, j), default=-0.2 + 0.07 * j) for j in range(N)]
        St.W[p] = [B.w[p][j] * rho_site(B, a, b) for j in range(N)]          # what createPRISM must have made of the user's omega
    St.hr = {p: oracle_real(E, B.dr, N, St.H[p]) for p in St.H}             # h(r), c(r), omega(r) as functions of the base symbols
    St.cr = {p: oracle_real(E, B.dr, N, St.C[p]) for p in St.C}
    St.wr = {p: oracle_real(E, B.dr, N, St.W[p]) for p in St.W}
    if positive_g and E.sym:
        for p in St.hr:
            for i in range(N):
                E.assume(St.hr[p][i] + 1.0 > 0)
    St.space = {'totalCorr': 'F', 'directCorr': 'F', 'omega': 'F'}
    populate(St, 'totalCorr', flags[0]); populate(St, 'directCorr', flags[1])
    if flags[2] == 'R':
        # omega is brought to real space by the user-level transform (it was built in Fourier space)
        P.sys.domain.MatrixArray_to_real(P.omega)
        St.space['omega'] = 'R'
    return St


def populate(St, which, space):
    P, E, N, n = St.P, St.E, St.N, St.n
    src = {'totalCorr': (St.H, St.hr), 'directCorr': (St.C, St.cr)}[which]
    data = _np.empty((N, n, n), dtype=object if E.sym else float)
    for ia, a in enumerate(St.types):
        for ib, b in enumerate(St.types):
            vals = src[0 if space == 'F' else 1][ckey(a, b)]
            for j in range(N):
                data[j, ia, ib] = vals[j]
    M = MatrixArray(length=N, rank=n, data=data, space=Space.Fourier if space == 'F' else Space.Real, types=St.types)
    setattr(P, which, M)
    St.space[which] = space


def lagrange0(k, y):
    """value at 0 of the quadratic through (k0,y0),(k1,y1),(k2,y2)"""
    k0, k1, k2 = k
    return (y[0] * (k1 * k2) / ((k0 - k1) * (k0 - k2)) + y[1] * (k0 * k2) / ((k1 - k0) * (k1 - k2)) + y[2] * (k0 * k1) / ((k2 - k0) * (k2 - k1)))


def kgrid(St):
    pi = St.E.pi()
    return [pi * (j + 1) / (St.B.dr * St.N) for j in range(St.N)]


def S_oracle(St, a, b, j, normalize):
    p = ckey(a, b)
    v = St.W[p][j] + rho_pair(St.B, a, b) * St.H[p][j]
    return v / rho_site(St.B, a, b) if normalize else v


def claim_abstract_state(St, tag):
    """alpha(P) = (Omega(k), H(k), C(k)) of the object equals the base symbols, whatever space each array is in now"""
    E, P, N = St.E, St.P, St.N
    for which, base, real in (('totalCorr', St.H, St.hr), ('directCorr', St.C, St.cr), ('omega', St.W, St.wr)):
        M = getattr(P, which)
        sp = M.space
        E.claim_true('%s:%s-flag-is-Real-or-Fourier' % (tag, which), sp in (Space.Real, Space.Fourier))
        src = base if sp == Space.Fourier else real
        for ia, a in enumerate(St.types):
            for ib, b in enumerate(St.types):
                for j in range(N):
                    E.claim_eq('%s:%s-preserved[%s%s][%d]' % (tag, which, a, b, j), M.data[j, ia, ib], src[ckey(a, b)][j])


def stored_terms(St):
    """the entries of the three stored arrays as they are now, with the base-symbol value each one must equal
    (claimed separately by claim_abstract_state): used to abstract them in the result claims"""
    inter = []; lem = []
    if not St.E.sym:
        return None, None
    for which, base, real in (('totalCorr', St.H, St.hr), ('directCorr', St.C, St.cr), ('omega', St.W, St.wr)):
        M = getattr(St.P, which)
        src = base if M.space == Space.Fourier else real
        for ia, a in enumerate(St.types):
            for ib, b in enumerate(St.types):
                for j in range(St.N):
                    v = M.data[j, ia, ib]
                    if hasattr(v, 'n'):
                        inter.append(v); lem.append((v, src[ckey(a, b)][j]))
    return inter, lem


class _AbsEnv:
    """forwards to the Env, adding abstract=/lemmas= to every claim_eq"""
    def __init__(self, E, inter, lem):
        self._E, self._i, self._l = E, inter, lem

    def __getattr__(self, k):
        return getattr(self._E, k)

    def claim_eq(self, key, a, b, **kw):
        if self._i:
            kw.setdefault('abstract', self._i); kw.setdefault('lemmas', self._l)
        return self._E.claim_eq(key, a, b, **kw)


def apply(St, op, tag):
    """run one operation on the real object and claim its result equals the definition evaluated on the base symbols"""
    E, P, B, N, n, types = St.E, St.P, St.B, St.N, St.n, St.types
    calc = pyPRISM.calculate
    k = kgrid(St)
    E0 = E

    def pairs_lt():
        return [(a, b) for i, a in enumerate(types) for b in types[i + 1:]]

    def check_ma(res, fn, name, space):
        E.claim_true('%s:%s-is-MatrixArray' % (tag, name), isinstance(res, MatrixArray) and res.data.shape == (N, n, n))
        E.claim_true('%s:%s-space' % (tag, name), res.space == space)
        for ia, a in enumerate(types):
            for ib, b in enumerate(types):
                for j in range(N):
                    E.claim_eq('%s:%s[%s%s][%d]' % (tag, name, a, b, j), res.data[j, ia, ib], fn(a, b, j))

    def no_share(res, name):
        E.claim_true('%s:%s-shares-no-memory-with-stored-arrays' % (tag, name),
                     not any(_np.shares_memory(res.data, getattr(P, w).data) for w in ('totalCorr', 'directCorr', 'omega')))

    def absenv():
        # called right after the real function returned: the stored arrays are the terms the result was built from
        claim_abstract_state(St, tag + ':post')
        inter, lem = stored_terms(St)
        return _AbsEnv(E0, inter, lem)

    if op == 'pair_correlation':
        res = calc.pair_correlation(P)
        E = absenv()
        check_ma(res, lambda a, b, j: St.hr[ckey(a, b)][j] + 1.0, 'g=h+1', Space.Real)
        no_share(res, 'g')
    elif op == 'pmf':
        res = calc.pmf(P)
        E = absenv()
        check_ma(res, lambda a, b, j: -B.kT * E.log(St.hr[ckey(a, b)][j] + 1.0), 'pmf=-kT*ln(g)', Space.Real)
        no_share(res, 'pmf')
    elif op.startswith('structure_factor'):
        norm = op.endswith('[norm]')
        res = calc.structure_factor(P, normalize=norm) if not norm else calc.structure_factor(P)
        E = absenv()
        check_ma(res, lambda a, b, j: S_oracle(St, a, b, j, norm), 'S', Space.Fourier)
        no_share(res, 'S')
    elif op.startswith('second_virial'):
        ex = op.endswith('[extrap]')
        res = calc.second_virial(P, extrapolate=ex) if not ex else calc.second_virial(P)
        E = absenv()
        E.claim_true(tag + ':B2-is-PairTable', isinstance(res, PairTable))
        for a in types:
            for b in types:
                y = [-0.5 * St.H[ckey(a, b)][j] for j in range(N)]
                E.claim_eq('%s:B2[%s,%s]' % (tag, a, b), res[a, b], lagrange0(k[:3], y[:3]) if ex else y[0])
    elif op.startswith('chi'):
        ex = op.endswith('[extrap]')
        res = calc.chi(P, extrapolate=ex) if not ex else calc.chi(P)
        E = absenv()
        rtot = sum((B.rho[t] for t in types[1:]), B.rho[types[0]])
        for (a, b) in pairs_lt():
            R = (B.d[a] / B.d[b]) * (B.d[a] / B.d[b]) * (B.d[a] / B.d[b])
            sq = E.sqrt(R)
            phiA = B.rho[a] / (B.rho[a] + B.rho[b]); phiB = B.rho[b] / (B.rho[a] + B.rho[b])
            pref = 0.5 * rtot / (phiA / sq + phiB * sq)
            curve = [pref * (St.C[ckey(a, a)][j] / R + R * St.C[ckey(b, b)][j] - 2.0 * St.C[ckey(a, b)][j]) for j in range(N)]
            for (x, y_) in ((a, b), (b, a)):
                got = res[x, y_]
                if ex:
                    E.claim_eq('%s:chi0[%s,%s]' % (tag, x, y_), got, lagrange0(k[:3], curve[:3]))
                else:
                    for j in range(N):
                        E.claim_eq('%s:chi(k)[%s,%s][%d]' % (tag, x, y_, j), got[j], curve[j])
    elif op.startswith('spinodal'):
        ex = op.endswith('[extrap]')
        res = calc.spinodal_condition(P, extrapolate=ex) if not ex else calc.spinodal_condition(P)
        E = absenv()
        for (a, b) in pairs_lt():
            curve = []
            for j in range(N):
                W = [[St.W[ckey(a, a)][j], St.W[ckey(a, b)][j]], [St.W[ckey(a, b)][j], St.W[ckey(b, b)][j]]]
                C = [[St.C[ckey(a, a)][j], St.C[ckey(a, b)][j]], [St.C[ckey(a, b)][j], St.C[ckey(b, b)][j]]]
                M = mm(W, C)
                curve.append((1.0 - M[0][0]) * (1.0 - M[1][1]) - M[0][1] * M[1][0])
            for (x, y_) in ((a, b), (b, a)):
                E.claim_eq('%s:spinodal[%s,%s]' % (tag, x, y_), res[x, y_], lagrange0(k[:3], curve[:3]))
    elif op.startswith('solvation'):
        cl = 'HNC' if 'HNC' in op else 'PY'
        res = calc.solvation_potential(P, closure=cl) if cl == 'PY' else calc.solvation_potential(P)
        E = absenv()
        psik = {}
        for (a, b) in pair_list(types):
            vals = []
            for j in range(N):
                C = [[St.C[ckey(x, y_)][j] for y_ in types] for x in types]
                S = [[S_oracle(St, x, y_, j, True) for y_ in types] for x in types]
                M = mm(mm(C, S), C)
                v = M[types.index(a)][types.index(b)]
                vals.append(-B.kT * v if cl == 'HNC' else -B.kT * E.log(1.0 + v))
            psik[ckey(a, b)] = oracle_real(E, B.dr, N, vals)
        check_ma(res, lambda a, b, j: psik[ckey(a, b)][j], 'psi', Space.Real)
        no_share(res, 'psi')
    elif op.startswith('flip:'):
        res = None
        which = op.split(':')[1]
        M = getattr(P, which)
        if M.space == Space.Fourier:
            P.sys.domain.MatrixArray_to_real(M)
        else:
            P.sys.domain.MatrixArray_to_fourier(M)
        claim_abstract_state(St, tag + ':post')
    else:
        raise KeyError(op)
    return res
