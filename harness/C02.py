"""C02 (structural part) - the equations the solver imposes for a one-component fluid are the Riemann-sum
discretisation of Ornstein-Zernike + closure with the 3-D prefactors, one density and 1/kT in the right places;
dilute limit (gamma=0 is the rho->0 fixed point, g = exp(-u/kT) resp. 1-u/kT) and the B2 formula."""
import numpy as _np
import pyPRISM
from pyPRISM.core.Space import Space
from .prism import build, claim_cost, grid_r, sigma
from .common import record_closures, oracle_fourier

PROP = 'C02'
TIMEOUT = {'quick': 900, 'thorough': 2400}
BOUNDS = dict(rank=1, N='2-3 grid points', closures='PY, HNC, MSA (with flag)', potentials='every shipped potential (dilute limit); arbitrary potential (OZ structure)', parameters='any rho, kT, dr>=1e-3 or dk; diameter a multiple of dr')
OUTSIDE = ['numerical agreement of a converged fine-grid solution with the Wertheim-Thiele formulas and the O(dr) convergence rate: a 10^3-point nonlinear solve with transcendental closures has no SMT encoding within reach and sampling is not this technique; what is decided is that every prefactor, density and 1/kT sits where OZ + closure put them',
           'a refactoring to a different but also consistent discretisation would fail the Riemann-sum oracle (the oracle is the half-cell-shifted rectangle rule)']
ASSUMPTIONS = ['oracle transforms: F(k_j)=4 pi dr Sum r f sin(k(r-dr/2))/k and its 1/(2 pi^2) inverse (C08)', 'det(1 - rho c(k)) != 0']


def instances(tier):
    out = []
    for cl, fl in (('PercusYevick', False), ('HyperNettedChain', False), ('MeanSphericalApproximation', True), ('PercusYevick', True)):
        for N in (2, 3):
            for dom in ('dr', 'dk'):
                if tier == 'quick' and dom == 'dk' and N == 3:
                    continue
                out.append(dict(name='oz[N%d,%s,hc=%s,%s]' % (N, cl, fl, dom), fn='oz_step', args=dict(N=N, closure=cl, flag=fl, domain_from=dom), query_timeout_ms=120000))
    for cl, fl in (('PercusYevick', False), ('HyperNettedChain', False), ('MeanSphericalApproximation', True)):
        for pot in ('HardSphere', 'Exponential', 'HardCoreLennardJones', 'LennardJones'):
            out.append(dict(name='dilute[%s,%s]' % (cl, pot), fn='dilute_step', args=dict(closure=cl, flag=fl, pot=pot), query_timeout_ms=120000))
    out.append(dict(name='b2-dilute', fn='b2_step', args={}, query_timeout_ms=120000))
    out.append(dict(name='rescan[diameter]', fn='rescan_step', args={}, query_timeout_ms=120000))
    return out


def oz_step(E, N, closure, flag, domain_from):
    B = build(E, 1, N, closures={'AA': closure}, flags={'AA': flag}, omegas={'AA': 'SingleSite'}, diam={'A': 1}, domain_from=domain_from)
    P = B.S.createPRISM()
    rec = record_closures(P, B.types)
    x = E.arr('x', (N,), default=0.15)
    y = P.cost(x)
    E.reachable('oz')
    claim_cost(E, B, P, x, y, rec)      # (A) with omega=1: rho^2 h = rho c (rho + rho^2 h); (B) c(k) = Riemann sum of the closure; (C)
    rho = B.rho['A']
    for j in range(N):
        h = P.totalCorr.data[j, 0, 0]; c = P.directCorr.data[j, 0, 0]
        E.claim_eq('OZ:h(1-rho*c)=c[k%d]' % j, h * (1.0 - rho * c), c)
    # structure factor of the self-consistent object: S = 1 + rho h = 1/(1 - rho c)
    Sn = pyPRISM.calculate.structure_factor(P, normalize=True)
    Su = pyPRISM.calculate.structure_factor(P, normalize=False)
    for j in range(N):
        h = P.totalCorr.data[j, 0, 0]; c = P.directCorr.data[j, 0, 0]
        E.claim_eq('S=1+rho*h[k%d]' % j, Sn.data[j, 0, 0], 1.0 + rho * h)
        E.claim_eq('S*(1-rho*c)=1[k%d]' % j, Sn.data[j, 0, 0] * (1.0 - rho * c), 1.0)
        E.claim_eq('S_unnormalised=rho*S[k%d]' % j, Su.data[j, 0, 0], rho * (1.0 + rho * h))
    # g(r) asked AFTER S(k) (which leaves totalCorr in Fourier space): g = FT^-1(h) + 1
    from .common import oracle_real
    hk = [P.totalCorr.data[j, 0, 0] for j in range(N)]
    g = pyPRISM.calculate.pair_correlation(P)
    hr = oracle_real(E, B.dr, N, hk)
    for i in range(N):
        E.claim_eq('g=FT^-1(h)+1-after-S(k)[%d]' % i, g.data[i, 0, 0], hr[i] + 1.0)
    E.claim('canary-density-squared', E.eq(P.totalCorr.data[0, 0, 0] * (1.0 - rho * rho * P.directCorr.data[0, 0, 0]), P.directCorr.data[0, 0, 0]), canary=True)


def dilute_step(E, closure, flag, pot):
    N = 3
    B = build(E, 1, N, closures={'AA': closure}, flags={'AA': flag}, potentials={'AA': dict(kind=pot, high='sym')}, omegas={'AA': 'SingleSite'}, diam={'A': 2})
    P = B.S.createPRISM()
    rec = record_closures(P, B.types)
    zero = _np.zeros(N, dtype=object if E.sym else float)
    for i in range(N):
        zero[i] = E.const(0.0)
    y = P.cost(zero)
    E.reachable('dilute')
    r = grid_r(B)
    got = rec[('A', 'A')]
    uo = [B.uor['AA'](ri, sigma(B, 'A', 'A')) for ri in r]
    for i in range(N):
        inside = bool(r[i] <= sigma(B, 'A', 'A'))
        if closure in ('PercusYevick', 'HyperNettedChain'):
            # g = 1 + c(gamma=0) = exp(-u/kT)
            E.claim_eq('g0=1+c(0)=exp(-u/kT)[%d]' % i, 1.0 + got['out'][i], E.exp(-(uo[i] / B.kT)))
        else:
            E.claim_eq('g0=1+c(0)[%d]' % i, 1.0 + got['out'][i], E.const(0.0) if inside else 1.0 - uo[i] / B.kT)
    rho = B.rho['A']
    for j in range(N):
        h = P.totalCorr.data[j, 0, 0]; c = P.directCorr.data[j, 0, 0]
        # gamma_out(k) (1 - rho c) = rho c^2 : the residual at gamma=0 is rho times a bounded expression
        E.claim_eq('gamma_out*(1-rho*c)=rho*c^2[k%d]' % j, (h - c) * (1.0 - rho * c), rho * c * c)
    E.claim('canary', E.eq(got['out'][N - 1], E.exp(-(uo[N - 1] / B.kT))), canary=True)


def b2_step(E):
    """second_virial on the dilute-limit object (h := c): -c(k0)/2 with c(k0) the Riemann sum of 4 pi Int f r sin(kr)/k dr"""
    N = 3
    B = build(E, 1, N, closures={'AA': 'PercusYevick'}, flags={}, potentials={'AA': dict(kind='LennardJones')}, omegas={'AA': 'SingleSite'}, diam={'A': 1})
    P = B.S.createPRISM()
    rec = record_closures(P, B.types)
    zero = _np.empty(N, dtype=object if E.sym else float)
    for i in range(N):
        zero[i] = E.const(0.0)
    P.cost(zero)
    E.reachable('b2')
    P.totalCorr = P.directCorr.get_copy()          # rho -> 0: h = c
    f = rec[('A', 'A')]['out']                    # = exp(-u/kT) - 1 (proven in dilute[...])
    F = oracle_fourier(E, B.dr, N, f)
    B2 = pyPRISM.calculate.second_virial(P, extrapolate=False)
    E.claim_eq('B2=-c(k0)/2', B2['A', 'A'], -0.5 * F[0])
    E.claim('canary-sign', E.eq(B2['A', 'A'], 0.5 * F[0]), canary=True)


def rescan_step(E):
    """a packing-fraction scan on ONE System: after the diameter is re-assigned the next PRISM object is that of the new
    diameter (hard-sphere potential without an explicit sigma), not of the first one"""
    N = 3
    B = build(E, 1, N, closures={'AA': 'PercusYevick'}, flags={'AA': False}, potentials={'AA': dict(kind='HardSphere', high='sym')}, omegas={'AA': 'SingleSite'}, diam={'A': 1})
    P0 = B.S.createPRISM()
    x = E.arr('x', (N,), default=0.15)
    P0.cost(x)
    B.d['A'] = B.dr * 2
    B.S.diameter['A'] = B.d['A']
    P = B.S.createPRISM()
    rec = record_closures(P, B.types)
    y = P.cost(x)
    E.reachable('rescan')
    claim_cost(E, B, P, x, y, rec, claims=('B', 'C'))
    E.claim_eq('potential.sigma-follows-the-new-diameter', P.sys.potential['A', 'A'].sigma, B.d['A'])
