"""Shared machinery of C01-C04/C06/C16: build a fully specified System through the public API with symbolic
parameters, run the real createPRISM()/cost(x), and state the oracle pieces written from the theory
(never from the code): grid, densities, closures, Riemann-sum transforms, matrix PRISM equation."""
import numpy as _np
import pyPRISM
from pyPRISM.core.Space import Space
from .common import (spec_closure, shipped_ms, ALIASES, HavocU, HavocClosure, oracle_fourier, oracle_real, mm, record_closures, lj, hclj)

TYPES = ['A', 'B', 'C', 'D']


def pair_list(types):
    return [(a, b) for i, a in enumerate(types) for b in types[i:]]


def make_potential(E, cfg, name):
    """cfg: 'havoc' | dict(kind=..., params symbolic). returns (object, oracle u(r_i, sigma_default) -> value)"""
    P = pyPRISM.potential
    if cfg == 'havoc' or cfg is None or (isinstance(cfg, dict) and cfg.get('kind') == 'havoc'):
        U = HavocU(E, name)
        return U, None
    kind = cfg['kind']
    if kind == 'HardSphere':
        hv = E.real('high' + name, default=1e6) if cfg.get('high') == 'sym' else None
        U = P.HardSphere() if hv is None else P.HardSphere(high_value=hv)
        hv = 1e6 if hv is None else hv
        return U, (lambda ri, sg: (hv if bool(ri <= sg) else E.const(0.0)))
    if kind == 'Exponential':
        eps = E.real('eps' + name, default=0.7); al = E.real('alpha' + name, pos=True, default=0.5)
        hv = E.real('high' + name, default=1e6) if cfg.get('high') == 'sym' else None
        U = P.Exponential(epsilon=eps, alpha=al) if hv is None else P.Exponential(epsilon=eps, alpha=al, high_value=hv)
        hv = 1e6 if hv is None else hv
        return U, (lambda ri, sg: (hv if bool(ri <= sg) else -eps * E.exp(-(ri - sg) / al)))
    if kind == 'HardCoreLennardJones':
        eps = E.real('eps' + name, default=0.7)
        hv = E.real('high' + name, default=1e6) if cfg.get('high') == 'sym' else None
        U = P.HardCoreLennardJones(epsilon=eps) if hv is None else P.HardCoreLennardJones(epsilon=eps, high_value=hv)
        hv = 1e6 if hv is None else hv
        return U, (lambda ri, sg: (hv if bool(ri <= sg) else hclj(eps, sg, ri)))
    if kind == 'LennardJones':
        eps = E.real('eps' + name, default=0.7)
        U = P.LennardJones(epsilon=eps)
        return U, (lambda ri, sg: lj(eps, sg, ri))
    raise KeyError(kind)


class Sys:
    pass


def ckey(a, b):
    """canonical (order independent) name of a pair"""
    return ''.join(sorted([a, b]))


def build(E, rank, N, closures=None, flags=None, potentials=None, omegas=None, diam=None, dr_lo=1e-3, types=None, prefix='',
          group_assign=False, kT_reassign=False, rho=None, psigma=None, domain_from='dr', reassign=False):
    """closures: {pair: class name | 'Havoc'}; potentials: {pair: cfg}; omegas: {pair: 'array'|'SingleSite'|'NoIntra'|(Omega object, values)};
    diam: {type: multiple of dr}; psigma: {pair: multiple of dr} explicit potential sigma. Pair keys are canonical (sorted) names.
    group_assign: closure and potential tables are filled by ONE list assignment (table[types,types] = obj) - needs a uniform closure/potential.
    kT_reassign: the System is constructed with another kT and kT is assigned afterwards (temperature sweep).
    Returns a namespace with the System and every user-level symbol."""
    B = Sys()
    types = types or TYPES[:rank]
    B.types = types; B.rank = rank; B.N = N; B.prefix = prefix
    B.kT = E.real(prefix + 'kT', pos=True, default=1.3)
    if domain_from == 'dr':
        B.dr = E.real(prefix + 'dr', pos=True, lo=dr_lo, default=0.25)
    else:
        B.dk = E.real(prefix + 'dk', pos=True, default=3.0)
        B.dr = E.pi() / (B.dk * N)           # the conjugate spacing the documentation promises
        E.assume(B.dr >= dr_lo)
    if kT_reassign:
        S = pyPRISM.System(types, kT=B.kT * 2.0)
        S.kT = B.kT
    else:
        S = pyPRISM.System(types, kT=B.kT)
    S.domain = pyPRISM.Domain(length=N, dr=B.dr) if domain_from == 'dr' else pyPRISM.Domain(length=N, dk=B.dk)
    B.rho = {}; B.d = {}
    for t in sorted(types):
        i = TYPES.index(t) if t in TYPES else sorted(types).index(t)
        B.rho[t] = (rho or {}).get(t)
        if B.rho[t] is None:
            B.rho[t] = E.real(prefix + 'rho' + t, pos=True, default=0.2 + 0.1 * i)
        m = (diam or {}).get(t, 1 + (i % N))
        B.d[t] = B.dr * m
    if reassign:
        # a corrected input / composition sweep: everything is assigned, the FIRST declared type with another value,
        # and then only that type is re-assigned; nothing derived from the old value may survive
        for t in types:
            S.density[t] = B.rho[t] * (3.0 if t == types[0] else 1.0)
            S.diameter[t] = B.d[t] * (2.0 if t == types[0] else 1.0)
        S.density[types[0]] = B.rho[types[0]]
        S.diameter[types[0]] = B.d[types[0]]
    else:
        for t in types:
            S.density[t] = B.rho[t]
            S.diameter[t] = B.d[t]
    B.closure = {}; B.flag = {}; B.uor = {}; B.w = {}; B.omega_kind = {}; B.uname = {}; B.psigma = {}
    if group_assign:
        cn = (closures or {}).get('*', 'PercusYevick'); fl = bool((flags or {}).get('*', False))
        U, uor = make_potential(E, (potentials or {}).get('*', 'havoc'), prefix + 'X')
        S.potential[types, types] = U
        S.closure[types, types] = getattr(pyPRISM.closure, cn)(apply_hard_core=fl)
    for (a, b) in pair_list(types):
        p = ckey(a, b)
        if group_assign:
            B.uor[p] = uor; B.closure[p] = cn; B.flag[p] = fl; B.uname[p] = prefix + 'X'
        else:
            cfg = (potentials or {}).get(p, 'havoc')
            B.uname[p] = prefix + (cfg['name'] if isinstance(cfg, dict) and 'name' in cfg else p)
            U, uor = make_potential(E, cfg, B.uname[p])
            if (psigma or {}).get(p) is not None:
                U.sigma = B.dr * psigma[p]
                B.psigma[p] = U.sigma
            S.potential[a, b] = U
            B.uor[p] = uor
            cn = (closures or {}).get(p, 'PercusYevick')
            fl = bool((flags or {}).get(p, False))
            B.closure[p] = cn; B.flag[p] = fl
            S.closure[a, b] = HavocClosure(E, prefix + p) if cn == 'Havoc' else getattr(pyPRISM.closure, cn)(apply_hard_core=fl)
        om = (omegas or {}).get(p, 'array')
        B.omega_kind[p] = om
        if om == 'array':
            B.w[p] = E.arr(prefix + 'w' + p, (N,), default=0.7)
            S.omega[a, b] = pyPRISM.omega.FromArray(B.w[p])
        elif om == 'SingleSite':
            B.w[p] = [E.const(1.0)] * N; S.omega[a, b] = pyPRISM.omega.SingleSite()
        elif om == 'NoIntra':
            B.w[p] = [E.const(0.0)] * N; S.omega[a, b] = pyPRISM.omega.NoIntra()
        elif om == 'InterMolecular':
            B.w[p] = [E.const(0.0)] * N; S.omega[a, b] = pyPRISM.omega.InterMolecular()
        else:
            obj, vals = om
            B.w[p] = vals; S.omega[a, b] = obj
    B.S = S
    return B


def key(B, a, b):
    return ckey(a, b)


def rho_site(B, a, b):
    return B.rho[a] if a == b else B.rho[a] + B.rho[b]


def rho_pair(B, a, b):
    return B.rho[a] * B.rho[b]


def sigma(B, a, b):
    return (B.d[a] + B.d[b]) / 2.0


def grid_r(B):
    return [B.dr * (i + 1) for i in range(B.N)]


def u_values(E, B, P, a, b):
    """the user's potential on the grid for pair (a,b): HavocU symbols or the documented formula"""
    p = key(B, a, b)
    if B.uor[p] is None:
        # the HavocU object inside P.sys was evaluated by createPRISM: its symbols are named u<pair>_<i>
        return [E.lookup('u%s_%d' % (B.uname[p], i), default=0.3) for i in range(B.N)]
    sg = B.psigma.get(p, sigma(B, a, b))
    return [B.uor[p](ri, sg) for ri in grid_r(B)]


def spec_c(E, B, p, gam_i, u_over_kT_i, inside):
    """published closure value at one point"""
    cn = ALIASES.get(B.closure[p], B.closure[p])
    if B.flag[p] and inside:
        return -1.0 - gam_i
    if cn == 'MartynovSarkisov':
        return shipped_ms(E, gam_i, u_over_kT_i)      # the shipped (test-pinned) form; the deviation from the paper is C09's known finding
    return spec_closure(E, cn, gam_i, u_over_kT_i)


def claim_cost(E, B, P, x, y, rec, tag='', claims=('A', 'B', 'C'), canary=True):
    """the three per-evaluation facts about cost(x) (DESIGN 3/C01) against oracles built from the user's symbols"""
    N, n, types = B.N, B.rank, B.types
    r = grid_r(B)
    E.claim_true(tag + 'flags', P.totalCorr.space == Space.Fourier and P.directCorr.space == Space.Fourier and P.omega.space == Space.Fourier)
    E.claim_true(tag + 'y-shape', _np.shape(y) == (N * n * n,))
    E.claim_true(tag + 'type-labels-kept', all(list(getattr(P, w_).types) == list(types) for w_ in ('totalCorr', 'directCorr', 'omega', 'GammaOut')))
    # ---- (B) closure wiring: each pair's closure saw gamma_in = x/r of that pair, that pair's u/kT and sigma
    Chat = {}
    creal = {}
    for (a, b) in pair_list(types):
        p = ckey(a, b)
        ia, ib = types.index(a), types.index(b)
        got = rec.get((a, b))
        E.claim_true(tag + 'closure-evaluated[%s]' % p, got is not None)
        if got is None:
            continue
        gam = [x[i * n * n + ia * n + ib] / r[i] for i in range(N)]
        cl = P.sys.closure[a, b]
        upot = cl.potential
        creal[p] = got['out']
        if 'B' in claims:
            for i in range(N):
                E.claim_eq(tag + 'B:gamma_in[%s][%d]==x/r' % (p, i), got['gamma'][i], gam[i])
            if B.closure[p] != 'Havoc':
                uo = u_values(E, B, P, a, b)
                for i in range(N):
                    inside = bool(r[i] <= sigma(B, a, b))
                    if uo is not None:
                        E.claim_eq(tag + 'B:u/kT[%s][%d]' % (p, i), upot[i], uo[i] / B.kT)
                    ui = upot[i]
                    if ALIASES.get(B.closure[p], B.closure[p]) == 'MartynovSarkisov' and not (B.flag[p] and inside):
                        if E.sym:
                            E.assume((gam[i] - ui + 0.5) >= 0)
                        elif gam[i] - ui + 0.5 < 0:
                            continue
                    E.claim_eq(tag + 'B:c[%s][%d]==closure(gamma_in,u/kT)' % (p, i), got['out'][i], spec_c(E, B, p, gam[i], ui, inside))
                E.claim_eq(tag + 'B:closure.sigma[%s]' % p, cl.sigma, sigma(B, a, b))
        if canary and 'B' in claims and (a, b) == pair_list(types)[-1]:
            E.claim(tag + 'B:canary-gamma', E.eq(got['gamma'][0], gam[0] + 1.0), canary=True)
        Chat[p] = oracle_fourier(E, B.dr, N, got['out'])
        if 'B' in claims:
            for j in range(N):
                E.claim_eq(tag + 'B:directCorr(k)[%s][%d]==FT(c)' % (p, j), P.directCorr.data[j, ia, ib], Chat[p][j])
                E.claim_eq(tag + 'B:directCorr-symmetric[%s][%d]' % (p, j), P.directCorr.data[j, ib, ia], P.directCorr.data[j, ia, ib])
    if len(Chat) != len(pair_list(types)):
        return
    # ---- (W) omega wiring: P.omega = user's omega(k) * site density
    for j in range(N):
        for i, a in enumerate(types):
            for l, b in enumerate(types):
                E.claim_eq(tag + 'W:omega==w*rho_site[k%d][%s%s]' % (j, a, b), P.omega.data[j, i, l], B.w[key(B, a, b)][j] * rho_site(B, a, b))
    # ---- (A) matrix PRISM equation at every k with the user's omega, densities
    if 'A' in claims:
        cabs = [v for v in (P.directCorr.data[idx] for idx in _np.ndindex(*P.directCorr.data.shape)) if hasattr(v, 'n')]
        for j in range(N):
            W = [[B.w[key(B, a, b)][j] * rho_site(B, a, b) for b in types] for a in types]
            C = [[P.directCorr.data[j, types.index(a), types.index(b)] for b in types] for a in types]
            H = [[P.totalCorr.data[j, types.index(a), types.index(b)] * rho_pair(B, a, b) for b in types] for a in types]
            WH = [[W[i][l] + H[i][l] for l in range(n)] for i in range(n)]
            R = mm(mm(W, C), WH)
            for i in range(n):
                for l in range(n):
                    E.claim_eq(tag + 'A:H=WC(W+H)[k%d][%d,%d]' % (j, i, l), H[i][l], R[i][l], abstract=cabs)
                    if i < l:
                        E.claim_eq(tag + 'A:totalCorr-symmetric[k%d][%d,%d]' % (j, i, l), P.totalCorr.data[j, i, l], P.totalCorr.data[j, l, i], abstract=cabs)
            if canary and j == 0 and all(v == 'Havoc' for v in B.closure.values()):
                if n > 1:
                    Rt = mm(mm(C, W), WH)
                    E.claim(tag + 'A:canary-transposed', E.eq(H[0][1], Rt[0][1]), canary=True)
                else:
                    E.claim(tag + 'A:canary-factor', E.eq(H[0][0], 2.0 * R[0][0]), canary=True)
    # ---- (C) residual: y = r*(gamma_out - gamma_in), gamma_out = FT^-1(H - C)
    if 'C' in claims:
        inter = [P.totalCorr.data[idx] for idx in _np.ndindex(*P.totalCorr.data.shape)] + [P.directCorr.data[idx] for idx in _np.ndindex(*P.directCorr.data.shape)]
        inter = [v for v in inter if hasattr(v, 'n')]
        for ia, a in enumerate(types):
            for ib, b in enumerate(types):
                lo, hi = min(ia, ib), max(ia, ib)       # MatrixArray_to_real transforms the upper triangle and mirrors it
                G = [P.totalCorr.data[j, lo, hi] - P.directCorr.data[j, lo, hi] for j in range(N)]
                go = oracle_real(E, B.dr, N, G)
                for i in range(N):
                    E.claim_eq(tag + 'C:y==r*(gamma_out-gamma_in)[%s%s][%d]' % (a, b, i), y[i * n * n + ia * n + ib], r[i] * (go[i] - x[i * n * n + ia * n + ib] / r[i]), abstract=inter)


def havoc_fourier(E, P, name='C'):
    """symbolic mode only: on the Domain instance inside this PRISM object replace the forward transform of a MatrixArray by
    fresh symmetric symbols named by the canonical pair (the same symbols for every PRISM object of the path), i.e. C(k)
    becomes arbitrary. Used where a claim must hold whatever C(k) is (matrix stage); sound for `holds`."""
    if not E.sym:
        return
    dom = P.sys.domain
    types = P.sys.types
    N = dom.length

    def to_fourier(marray):
        for i, a in enumerate(types):
            for j, b in enumerate(types):
                if i <= j:
                    col = E.arr(name + ckey(a, b), (N,), default=0.1)
                    marray.data[:, i, j] = col; marray.data[:, j, i] = col
        marray.space = Space.Fourier
    dom.MatrixArray_to_fourier = to_fourier
