"""C15 - Density / Diameter derived quantities stay consistent under any assignment history."""
import numpy as _np, itertools
import pyPRISM

PROP = 'C15'
BATCH = 16
BOUNDS = dict(quick='1-4 types; every assignment sequence (each step: one type or any list of types, fresh symbolic value, density and diameter both) of depth <=3 for 1-2 types, depth <=2 for 3 types, depth 1 + a re-assignment suffix for 4 types',
              thorough='depth 3 for 3 types, depth 2 for 4 types')
OUTSIDE = ['more than 4 types; histories deeper than the stated depth (every step is checked against a last-assigned-value model, so hidden state that needs more steps to show is outside)']
ASSUMPTIONS = ['values are positive reals; np.pi is a symbol bounded to 15 digits; the site-volume oracle is pi*d^3/6']


def keys_for(n):
    types = ['A', 'B', 'C', 'D'][:n]
    ks = [[t] for t in types]
    for m in range(2, n + 1):
        ks += [list(c) for c in itertools.combinations(types, m)]
    if n >= 2:
        ks.append([types[-1], types[0]])      # a list in non-declaration order
    return ks


def instances(tier):
    out = []
    depth = {1: 3, 2: 3, 3: 2, 4: 1} if tier == 'quick' else {1: 3, 2: 3, 3: 3, 4: 2}
    for n in (1, 2, 3, 4):
        ks = keys_for(n)
        for d in range(1, depth[n] + 1):
            for seq in itertools.product(range(len(ks)), repeat=d):
                out.append(dict(name='hist[n%d,%s]' % (n, '>'.join('+'.join(ks[i]) for i in seq)), fn='history', args=dict(n=n, seq=[ks[i] for i in seq])))
    # declaration order of the types differs from alphabetical order (reads by name must not depend on it)
    for order in (['B', 'A'], ['C', 'A', 'B'], ['B', 'C', 'A']):
        n = len(order)
        for seq in ([order], [[order[0]], [order[-1]]], [[order[-1]], [order[0]], [order[1]]], [[order[1]], order]):
            out.append(dict(name='hist[order=%s,%s]' % (''.join(order), '>'.join('+'.join(k) for k in seq)), fn='history', args=dict(n=n, seq=seq, order=order)))
    # 4 types: everything assigned, then one re-assignment of each key
    for k in keys_for(4):
        out.append(dict(name='hist[n4,all>%s]' % '+'.join(k), fn='history', args=dict(n=4, seq=[['A', 'B', 'C', 'D'], k])))
        out.append(dict(name='hist[n4,D>C>B>A>%s]' % '+'.join(k), fn='history', args=dict(n=4, seq=[['D'], ['C'], ['B'], ['A'], k])))
    return out


def history(E, n, seq, order=None):
    types = order or ['A', 'B', 'C', 'D'][:n]
    rho = pyPRISM.Density(types)
    dia = pyPRISM.Diameter(types)
    R = {}; Dm = {}
    E.reachable('hist')
    pi = E.pi()
    for step, key in enumerate(seq):
        vr = E.real('rho%d' % step, pos=True, default=0.1 + 0.07 * step)
        vd = E.real('d%d' % step, pos=True, default=1.0 + 0.5 * step)
        k = key[0] if len(key) == 1 and step % 2 == 0 else key      # single types both as 'A' and as ['A']
        rho[k] = vr
        dia[k] = vd
        for t in key:
            R[t] = vr; Dm[t] = vd
        tag = 's%d' % step
        tot = None
        for a in types:
            if a in R:
                tot = R[a] if tot is None else tot + R[a]
        E.claim_eq(tag + ':total', rho.total, tot)
        for a in types:
            if a not in R:
                E.claim_true(tag + ':unassigned-is-None[%s]' % a, rho[a] is None and dia[a] is None)
                continue
            E.claim_eq(tag + ':rho[%s]' % a, rho[a], R[a])
            E.claim_eq(tag + ':diameter[%s]' % a, dia[a], Dm[a])
            E.claim_eq(tag + ':diameter.diameter[%s]' % a, dia.diameter[a], Dm[a])
            E.claim_eq(tag + ':volume[%s]' % a, dia.volume[a], pi * Dm[a] * Dm[a] * Dm[a] / 6.0)
            for b in types:
                if b not in R:
                    continue
                E.claim_eq(tag + ':pair[%s,%s]' % (a, b), rho.pair[a, b][0], R[a] * R[b])
                E.claim_eq(tag + ':site[%s,%s]' % (a, b), rho.site[a, b][0], R[a] if a == b else R[a] + R[b])
                sg = dia.sigma[a, b]
                E.claim_true(tag + ':sigma-set[%s,%s]' % (a, b), sg is not None)
                if sg is not None:
                    E.claim_eq(tag + ':sigma[%s,%s]' % (a, b), sg, (Dm[a] + Dm[b]) / 2.0)
                    E.claim_eq(tag + ':Diameter[a,b][%s,%s]' % (a, b), dia[a, b], (Dm[a] + Dm[b]) / 2.0)
        E.claim_true(tag + ':pair/site-shape', rho.pair.data.shape == (1, n, n) and rho.site.data.shape == (1, n, n))
        missing = any(t not in R for t in types)
        for nm, obj in (('density', rho), ('diameter', dia)):
            try:
                obj.check(); raised = False
            except ValueError:
                raised = True
            E.claim_true(tag + ':%s.check-raises-iff-unassigned' % nm, raised == missing)
    a = seq[-1][0]
    E.claim('canary', E.eq(rho.pair[a, a][0], R[a] * R[a] + 1.0), canary=True)
