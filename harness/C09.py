"""C09 - closures equal their published relations, core rule, first-order limit, purity, aliases."""
import numpy as _np
import pyPRISM
from vsym.core import SR
from .common import spec_closure, shipped_ms, CLOSURES, ALIASES, inc_grid

PROP = 'C09'
BOUNDS = dict(grid_points=3, grid='arbitrary strictly increasing positive r (not only equally spaced)',
              gamma='unbounded reals', u='unbounded reals (finite)', sigma='any positive real relative to the grid',
              closures=CLOSURES + list(ALIASES), flags=[False, True])
OUTSIDE = ['grids longer than 3 points (the closures have no length-dependent branch; evidence only)',
           'rounding error of exp/sqrt', 'u = +inf only through the inf-core instances (an IEEE-style infinity object at the core points: inf*0 = nan, exp(-inf) = 0)']
ASSUMPTIONS = ['MS oracle: c = exp(sqrt(1+2(gamma-u))-1)-1-gamma (Martynov-Sarkisov 1983 with gamma*=gamma-u, Yethiraj-Schweizer 1992); side condition 1+2(gamma-u) >= 0',
               'limit claims are about the first-order Taylor data (value and both partial derivatives at gamma=u=0), computed by running the real calculate over dual numbers']


def instances(tier):
    out = []
    names = CLOSURES + (list(ALIASES) if tier == 'thorough' else ['PY', 'MS'])
    for cl in names:
        for flag in (False, True):
            out.append(dict(name='def[%s,hc=%s]' % (cl, flag), fn='closure_def', args=dict(cls=cl, flag=flag)))
    for cl in CLOSURES:
        for flag in (False, True):
            out.append(dict(name='limit[%s,hc=%s]' % (cl, flag), fn='closure_limit', args=dict(cls=cl, flag=flag)))
    out.append(dict(name='aliases', fn='alias_identity', args={}))
    for cl, fl in [(c, True) for c in CLOSURES] + [('PercusYevick', False), ('HyperNettedChain', False)]:
        out.append(dict(name='inf-core[%s,hc=%s]' % (cl, fl), fn='closure_inf', args=dict(cls=cl, flag=fl)))
    return out


def closure_def(E, cls, flag):
    L = 3
    C = getattr(pyPRISM.closure, cls)
    base = ALIASES.get(cls, cls)
    r = inc_grid(E, 'r', L)
    sigma = E.real('sigma', pos=True, default=0.8)
    gamma = E.arr('g', L, default=0.1)
    u = E.arr('u', L, default=0.2)
    cl = C(apply_hard_core=flag)
    cl.potential = u
    cl.sigma = sigma
    g_before = [gamma[i] for i in range(L)]
    u_before = [u[i] for i in range(L)]
    r_before = [r[i] for i in range(L)]
    out = cl.calculate(r, gamma)
    E.reachable('def')
    E.claim_true('shape', len(out) == L)
    for i in range(L):
        inside = bool(r[i] <= sigma)      # decided: the closure's own mask already fixed it on this path
        if flag and inside:
            E.claim_eq('core[%d]' % i, out[i], -1.0 - gamma[i])
        else:
            if base == 'MartynovSarkisov':
                # secondary claim that keys the known finding: the code still equals the shipped
                # (test-pinned) expression, so any further change is a different violation
                if E.sym:
                    E.assume((gamma[i] - u[i] + 0.5) >= 0)
                    E.assume((1.0 + 2.0 * (gamma[i] - u[i])) >= 0)
                elif gamma[i] - u[i] + 0.5 < 0:
                    continue
                E.claim_eq('outside-shipped-form[%d]' % i, out[i], shipped_ms(E, gamma[i], u[i]))
            E.claim_eq('outside[%d]' % i, out[i], spec_closure(E, base, gamma[i], u[i]))
    # canary: a deliberately wrong oracle must be refuted
    E.claim('canary', E.eq(out[L - 1], -2.0 - gamma[L - 1]) if (flag and bool(r[L - 1] <= sigma)) else E.eq(out[L - 1], spec_closure(E, base, gamma[L - 1], u[L - 1]) + 1.0), canary=True)
    # purity: inputs are untouched (same element objects / same values), potential and sigma unchanged
    if E.sym:
        same = all(gamma[i] is g_before[i] for i in range(L)) and all(u[i] is u_before[i] for i in range(L)) and all(r[i] is r_before[i] for i in range(L))
        E.claim_true('inputs-unmodified', same and cl.potential is u and cl.sigma is sigma)
    else:
        same = all(gamma[i] == g_before[i] for i in range(L)) and all(u[i] == u_before[i] for i in range(L)) and all(r[i] == r_before[i] for i in range(L))
        E.claim_true('inputs-unmodified', same and cl.sigma == sigma)
    E.claim_true('result-is-not-an-input', out is not gamma and out is not u and not _np.shares_memory(out, gamma) and not _np.shares_memory(out, u))
    # repeatability: a second evaluation gives the same values
    first = [out[i] for i in range(L)]
    out2 = cl.calculate(r, gamma)
    for i in range(L):
        E.claim_eq('repeat[%d]' % i, out2[i], first[i])
    # no state carried over: the same closure object re-used with another potential / gamma of the same
    # length (temperature sweep, second PRISM object) is a function of the *current* potential only
    u2 = E.arr('v', L, default=-0.4)
    g2 = E.arr('h', L, default=0.35)
    cl.potential = u2
    out3 = cl.calculate(r, g2)
    for i in range(L):
        if flag and bool(r[i] <= sigma):
            E.claim_eq('reuse-core[%d]' % i, out3[i], -1.0 - g2[i])
        elif base == 'MartynovSarkisov':
            if E.sym:
                E.assume((g2[i] - u2[i] + 0.5) >= 0)
            elif g2[i] - u2[i] + 0.5 < 0:
                continue
            E.claim_eq('reuse-outside-shipped-form[%d]' % i, out3[i], shipped_ms(E, g2[i], u2[i]))
        else:
            E.claim_eq('reuse-outside[%d]' % i, out3[i], spec_closure(E, base, g2[i], u2[i]))


class Dual:
    """first-order dual number (value, d/dgamma, d/du) over the Env's scalars; numpy dispatches exp/sqrt to methods"""
    def __init__(self, E, v, dg, du):
        self.E, self.v, self.dg, self.du = E, v, dg, du

    @staticmethod
    def lift(E, o):
        return o if isinstance(o, Dual) else Dual(E, o, 0.0, 0.0)

    def __add__(s, o):
        o = Dual.lift(s.E, o); return Dual(s.E, s.v + o.v, s.dg + o.dg, s.du + o.du)
    __radd__ = __add__

    def __neg__(s):
        return Dual(s.E, -s.v, -s.dg, -s.du)

    def __sub__(s, o):
        return s + (-Dual.lift(s.E, o))

    def __rsub__(s, o):
        return Dual.lift(s.E, o) + (-s)

    def __mul__(s, o):
        o = Dual.lift(s.E, o); return Dual(s.E, s.v * o.v, s.v * o.dg + s.dg * o.v, s.v * o.du + s.du * o.v)
    __rmul__ = __mul__

    def exp(s):
        e = s.E.exp(s.v); return Dual(s.E, e, e * s.dg, e * s.du)

    def sqrt(s):
        q = s.E.sqrt(s.v); return Dual(s.E, q, s.dg / (2.0 * q), s.du / (2.0 * q))


def closure_limit(E, cls, flag):
    """c(0,0)=0, dc/dgamma=0, dc/du=-1 at gamma=u=0 outside the core (so c ~ -u to first order)."""
    C = getattr(pyPRISM.closure, cls)
    L = 2
    r = inc_grid(E, 'r', L)
    sigma = E.real('sigma', pos=True, default=0.1)
    if E.sym:
        E.assume(r[0] > sigma)
    elif not r[0] > sigma:
        sigma = r[0] / 2
    zero = E.const(0.0)
    one = E.const(1.0)
    gamma = _np.empty(L, dtype=object); u = _np.empty(L, dtype=object)
    for i in range(L):
        gamma[i] = Dual(E, zero, one, zero)
        u[i] = Dual(E, zero, zero, one)
    cl = C(apply_hard_core=flag)
    cl.potential = u
    cl.sigma = sigma
    out = cl.calculate(r, gamma)
    E.reachable('limit')
    for i in range(L):
        o = Dual.lift(E, out[i])
        E.claim_eq('c(0,0)=0[%d]' % i, o.v, 0.0)
        E.claim_eq('dc/dgamma=0[%d]' % i, o.dg, 0.0)
        E.claim_eq('dc/du=-1[%d]' % i, o.du, -1.0)
    E.claim('canary', E.eq(Dual.lift(E, out[0]).du, 1.0), canary=True)


def alias_identity(E):
    """PY/HNC/MSA/MS are the same code as the long names (subclass without overriding anything)."""
    for short, long in ALIASES.items():
        A = getattr(pyPRISM.closure, short); B = getattr(pyPRISM.closure, long)
        E.claim_true('alias-subclass[%s]' % short, issubclass(A, B))
        E.claim_true('alias-same-calculate[%s]' % short, A.calculate is B.calculate and A.__init__ is B.__init__)
        E.claim_true('alias-is-atomic[%s]' % short, issubclass(A, pyPRISM.closure.AtomicClosure))


# ----------------------------------------------------------------------------- genuinely infinite overlap value

class PInf:
    """+/- infinity as a potential value (hard core with high_value = inf), IEEE style: inf*0 = nan, exp(-inf) = 0.
    Only the operations a closure may apply to u are supported; anything else is 'not encodable'."""
    def __init__(self, sign=1, nan=False):
        self.sign = sign; self.nan = nan

    def _num(self, o):
        return isinstance(o, (int, float, bool, _np.bool_, _np.floating, _np.integer)) or hasattr(o, 'n')

    def __neg__(self):
        return PInf(-self.sign, self.nan)

    def __add__(self, o):
        if isinstance(o, PInf):
            return PInf(self.sign, self.nan or o.nan or o.sign != self.sign)
        if self._num(o):
            return PInf(self.sign, self.nan)
        return NotImplemented
    __radd__ = __add__

    def __sub__(self, o):
        return self + (-o)

    def __rsub__(self, o):
        return (-self) + o

    def __mul__(self, o):
        if isinstance(o, (bool, _np.bool_, int, float)):
            if o == 0:
                return PInf(self.sign, True)          # inf * 0 = nan
            return PInf(self.sign if o > 0 else -self.sign, self.nan)
        from vsym.core import NotEncodable
        raise NotEncodable('inf * symbolic value (sign unknown)')
    __rmul__ = __mul__

    def __truediv__(self, o):
        if isinstance(o, (int, float)) and o != 0:
            return PInf(self.sign if o > 0 else -self.sign, self.nan)
        from vsym.core import NotEncodable
        raise NotEncodable('inf / symbolic value')

    def exp(self):
        if self.nan:
            return PInf(1, True)
        return 0.0 if self.sign < 0 else PInf(1)

    def sqrt(self):
        return PInf(1, self.nan or self.sign < 0)


def closure_inf(E, cls, flag):
    """a genuinely hard core: u = +inf at the core points. With the flag c = -1-gamma there (a finite number, no nan);
    PY/HNC without the flag give -1-gamma as well (exp(-inf) = 0)."""
    import math
    L = 3
    C = getattr(pyPRISM.closure, cls)
    r = inc_grid(E, 'r', L)
    sigma = E.real('sigma', pos=True, default=0.8)
    gamma = E.arr('g', L, default=0.1)
    u = _np.empty(L, dtype=object if E.sym else float)
    core = []
    for i in range(L):
        inside = bool(r[i] <= sigma)
        core.append(inside)
        u[i] = (PInf(1) if E.sym else math.inf) if inside else E.real('u_%d' % i, default=0.2)
    cl = C(apply_hard_core=flag)
    cl.potential = u; cl.sigma = sigma
    out = cl.calculate(r, gamma)
    E.reachable('inf')
    for i in range(L):
        if core[i]:
            ok = not isinstance(out[i], PInf) and not (isinstance(out[i], float) and (math.isnan(out[i]) or math.isinf(out[i])))
            E.claim_true('core-value-is-a-finite-number[%d]' % i, ok)
            if ok:
                E.claim_eq('core[%d]==-1-gamma' % i, out[i], -1.0 - gamma[i])
