"""C10 - potentials equal their documented u(r); cores, cut-offs, shift, WCA, sigma defaulting, purity."""
import numpy as _np, math
import pyPRISM
from vsym.core import SR, Fraction, simplest_rational
from .common import inc_grid, lj, hclj, build_system

PROP = 'C10'
POTS = ['HardSphere', 'Exponential', 'HardCoreLennardJones', 'LennardJones', 'LennardJonesCut', 'LennardJonesCutShift', 'WeeksChandlerAndersen']
BOUNDS = dict(grid_points=3, grid='arbitrary strictly increasing positive r', parameters='epsilon any real (either sign), alpha>0, sigma>0, rcut>0, high_value any real',
              potentials=POTS, sigma_defaulting='rank 2 System through the real createPRISM, N=3')
OUTSIDE = ['grids longer than 3 points (no length-dependent branch in the anchors)', 'rounding error; the FP contact classification is the separate obligation family C10.contact',
           'WCA: 2**(1/6) is read as the rational value of the double; non-negativity is claimed up to 1e-12*|epsilon|']
ASSUMPTIONS = ['Exponential oracle: u = -epsilon*exp(-(r-sigma)/alpha) outside the core (sign as in the parameter documentation "strength of attraction" and the shipped test; the class docstring display formula omits the minus sign)',
               'core = every grid point with r_i <= sigma, for HardSphere, Exponential and HardCoreLennardJones alike']


def instances(tier):
    out = []
    for p in POTS:
        out.append(dict(name='def[%s]' % p, fn='pot_def', args=dict(pot=p)))
    for p_ in POTS:
        out.append(dict(name='elementwise[%s]' % p_, fn='pot_permuted', args=dict(pot=p_), max_paths=256))
    for p_ in POTS:
        out.append(dict(name='intgrid[%s]' % p_, fn='pot_intgrid', args=dict(pot=p_), max_paths=256))
    out.append(dict(name='cut-continuity', fn='lj_continuity', args={}))
    out.append(dict(name='wca-sign', fn='wca_sign', args={}, query_timeout_ms=120000))
    out.append(dict(name='sigma-default', fn='sigma_default', args={}))
    out.append(dict(name='contact-fp[N8]', fn='contact_fp', args=dict(N=8), query_timeout_ms=300000, timeout=2500))
    return out


def make(E, pot, explicit_sigma=True, sigma_default=0.8):
    P = pyPRISM.potential
    sigma = E.real('sigma', pos=True, default=sigma_default)
    s = sigma if explicit_sigma else None
    par = dict(sigma=sigma)
    if pot == 'HardSphere':
        par['high'] = E.real('high', default=1e6)
        U = P.HardSphere(sigma=s, high_value=par['high'])
    elif pot == 'Exponential':
        par['eps'] = E.real('eps', default=0.7); par['alpha'] = E.real('alpha', pos=True, default=0.5); par['high'] = E.real('high', default=1e6)
        U = P.Exponential(epsilon=par['eps'], alpha=par['alpha'], sigma=s, high_value=par['high'])
    elif pot == 'HardCoreLennardJones':
        par['eps'] = E.real('eps', default=0.7); par['high'] = E.real('high', default=1e6)
        U = P.HardCoreLennardJones(epsilon=par['eps'], sigma=s, high_value=par['high'])
    elif pot == 'LennardJones':
        par['eps'] = E.real('eps', default=0.7)
        U = P.LennardJones(epsilon=par['eps'], sigma=s)
    elif pot in ('LennardJonesCut', 'LennardJonesCutShift'):
        par['eps'] = E.real('eps', default=0.7); par['rcut'] = E.real('rcut', pos=True, default=1.2)
        U = P.LennardJones(epsilon=par['eps'], sigma=s, rcut=par['rcut'], shift=(pot == 'LennardJonesCutShift'))
    elif pot == 'WeeksChandlerAndersen':
        par['eps'] = E.real('eps', default=0.7)
        U = P.WeeksChandlerAndersen(epsilon=par['eps'], sigma=s)
    else:
        raise KeyError(pot)
    return U, par


Q = 2 ** (1.0 / 6.0)     # the double the code uses
QS = simplest_rational(Q)   # how the Real model reads that double (simplest rational within half an ulp)


def oracle(E, pot, par, ri, inside, beyond_cut=None):
    """documented u(r_i); `inside` = (r_i <= sigma) and `beyond_cut` = (r_i > rcut) are already decided booleans"""
    s = par['sigma']
    if pot == 'HardSphere':
        return par['high'] if inside else E.const(0.0)
    if pot == 'Exponential':
        return par['high'] if inside else -par['eps'] * E.exp(-(ri - s) / par['alpha'])
    if pot == 'HardCoreLennardJones':
        return par['high'] if inside else hclj(par['eps'], s, ri)
    if pot == 'LennardJones':
        return lj(par['eps'], s, ri)
    if pot == 'LennardJonesCut':
        return E.const(0.0) if beyond_cut else lj(par['eps'], s, ri)
    if pot == 'LennardJonesCutShift':
        return E.const(0.0) if beyond_cut else lj(par['eps'], s, ri) - lj(par['eps'], s, par['rcut'])
    if pot == 'WeeksChandlerAndersen':
        rc = s * (QS if E.sym else Q)
        return E.const(0.0) if beyond_cut else lj(par['eps'], s, ri) - lj(par['eps'], s, rc)
    raise KeyError(pot)


def pot_def(E, pot):
    L = 3
    r = inc_grid(E, 'r', L)
    U, par = make(E, pot)
    r_before = [r[i] for i in range(L)]
    out = U.calculate(r)
    E.reachable('def')
    E.claim_true('shape', _np.shape(out) == (L,))
    for i in range(L):
        inside = bool(r[i] <= par['sigma'])
        beyond = None
        if pot in ('LennardJonesCut', 'LennardJonesCutShift'):
            beyond = bool(r[i] > par['rcut'])
        elif pot == 'WeeksChandlerAndersen':
            beyond = bool(r[i] > par['sigma'] * (QS if E.sym else Q))
        want = oracle(E, pot, par, r[i], inside, beyond)
        tag = 'core' if (inside and pot in ('HardSphere', 'Exponential', 'HardCoreLennardJones')) else ('beyond-cut' if beyond else 'tail')
        E.claim_eq('%s[%d]' % (tag, i), out[i], want)
    E.claim('canary', E.eq(out[L - 1], oracle(E, pot, par, r[L - 1], bool(r[L - 1] <= par['sigma']),
                                             None if pot not in ('LennardJonesCut', 'LennardJonesCutShift', 'WeeksChandlerAndersen') else False) + 1.0), canary=True)
    # purity / repeatability
    if E.sym:
        E.claim_true('r-unmodified', all(r[i] is r_before[i] for i in range(L)))
        E.claim_true('sigma-unmodified', U.sigma is par['sigma'])
    else:
        E.claim_true('r-unmodified', all(r[i] == r_before[i] for i in range(L)))
        E.claim_true('sigma-unmodified', U.sigma == par['sigma'])
    E.claim_true('result-not-r', out is not r and not _np.shares_memory(out, r))
    first = [out[i] for i in range(L)]
    out2 = U.calculate(r)
    for i in range(L):
        E.claim_eq('repeat[%d]' % i, out2[i], first[i])
        E.claim_eq('first-result-not-overwritten[%d]' % i, out[i], first[i])


def pot_permuted(E, pot):
    """elementwise: the value at a distance does not depend on where that distance sits in the array (descending / shuffled r)"""
    L = 3
    r = inc_grid(E, 'r', L)
    U, par = make(E, pot)
    ref = U.calculate(r)
    ref = [ref[i] for i in range(L)]
    E.reachable('perm')
    for name, perm in (('reversed', [2, 1, 0]), ('shuffled', [1, 2, 0])):
        rp = _np.empty(L, dtype=r.dtype)
        for j, i in enumerate(perm):
            rp[j] = r[i]
        got = U.calculate(rp)
        for j, i in enumerate(perm):
            E.claim_eq('%s[%d]' % (name, j), got[j], ref[i])


def pot_intgrid(E, pot):
    """an integer-typed grid (Domain(dr=1) builds one): the values are the documented real numbers, not truncated to the grid's dtype"""
    r = _np.array([1, 2, 3])
    U, par = make(E, pot, sigma_default=2.3)       # default inputs (concrete fallback) put grid points inside the cut / core
    out = U.calculate(r)
    E.reachable('intgrid')
    for i in range(3):
        ri = E.const(float(r[i]))
        inside = bool(ri <= par['sigma'])
        beyond = None
        if pot in ('LennardJonesCut', 'LennardJonesCutShift'):
            beyond = bool(ri > par['rcut'])
        elif pot == 'WeeksChandlerAndersen':
            beyond = bool(ri > par['sigma'] * (QS if E.sym else Q))
        E.claim_eq('value[%d]' % i, out[i], oracle(E, pot, par, ri, inside, beyond))


def lj_continuity(E):
    """shifted-cut LJ is continuous at r_cut: a grid point sitting exactly on r_cut has u=0 (the value just beyond)."""
    L = 3
    r = inc_grid(E, 'r', L)
    sigma = E.real('sigma', pos=True, default=0.8)
    eps = E.real('eps', default=0.7)
    rcut = r[1]
    U = pyPRISM.potential.LennardJones(epsilon=eps, sigma=sigma, rcut=rcut, shift=True)
    out = U.calculate(r)
    E.reachable('cont')
    E.claim_eq('u(rcut)=0', out[1], 0.0)
    E.claim_eq('u(r>rcut)=0', out[2], 0.0)
    E.claim_eq('u(r<rcut)', out[0], lj(eps, sigma, r[0]) - lj(eps, sigma, rcut))
    E.claim('canary', E.eq(out[0], lj(eps, sigma, r[0])), canary=True)


def wca_sign(E):
    """WCA is non-negative for epsilon>0 (up to 1e-12*eps: 2**(1/6) is a double) and vanishes beyond its cut."""
    L = 2
    r = inc_grid(E, 'r', L)
    sigma = E.real('sigma', pos=True, default=0.8)
    eps = E.real('eps', pos=True, default=0.7)
    U = pyPRISM.potential.WeeksChandlerAndersen(epsilon=eps, sigma=sigma)
    out = U.calculate(r)
    E.reachable('wca')
    for i in range(L):
        E.claim('nonneg[%d]' % i, E.le(-1e-12 * eps, out[i]))
        if bool(r[i] > sigma * (QS if E.sym else Q)):
            E.claim_eq('zero-beyond[%d]' % i, out[i], 0.0)
    E.claim('canary', E.le(1e-3 * eps, out[0]), canary=True)
    qq = QS ** 6
    E.claim_true('q^6 within 1e-15 of 2', abs(qq - 2) < Fraction(1, 10 ** 15))


def sigma_default(E):
    """through the real createPRISM: an explicitly given sigma is used, otherwise (d_a+d_b)/2 (closure.sigma is always the mean)."""
    P = pyPRISM.potential
    N = 3
    dr = E.real('dr', pos=True, default=0.25)
    kT = E.real('kT', pos=True, default=1.3)
    S = pyPRISM.System(['A', 'B'], kT=kT)
    S.domain = pyPRISM.Domain(length=N, dr=dr)
    dA = dr * 1; dB = dr * 3
    S.diameter[['A', 'B']] = dr * 3          # first assignment, then both re-assigned: nothing stale may survive
    S.diameter['B'] = dB; S.diameter['A'] = dA
    S.density['A'] = E.real('rhoA', pos=True, default=0.2); S.density['B'] = E.real('rhoB', pos=True, default=0.3)
    sx = dr * 2 if E.sym else dr * 2      # explicit sigma for the BB pair, different from d_B
    high = E.real('high', default=1e6)
    S.potential['A', 'A'] = P.HardSphere(high_value=high)
    S.potential['A', 'B'] = P.HardSphere(high_value=high)
    S.potential['B', 'B'] = P.HardSphere(sigma=sx, high_value=high)
    S.closure[['A', 'B'], ['A', 'B']] = pyPRISM.closure.PercusYevick()
    S.omega[['A', 'B'], ['A', 'B']] = pyPRISM.omega.SingleSite()
    PR = S.createPRISM()
    E.reachable('sigma-default')
    want = {('A', 'A'): dA, ('A', 'B'): (dA + dB) / 2.0, ('B', 'B'): sx}
    mean = {('A', 'A'): dA, ('A', 'B'): (dA + dB) / 2.0, ('B', 'B'): dB}
    r = PR.sys.domain.r
    for (a, b), sg in want.items():
        E.claim_eq('potential.sigma[%s%s]' % (a, b), PR.sys.potential[a, b].sigma, sg)
        E.claim_eq('closure.sigma[%s%s]' % (a, b), PR.sys.closure[a, b].sigma, mean[a, b])
        u = PR.sys.closure[a, b].potential
        for i in range(N):
            inside = bool(r[i] <= sg)
            E.claim_eq('u/kT[%s%s][%d]' % (a, b, i), u[i], (high if inside else E.const(0.0)) / kT)
    # the user's potential objects were not given a sigma behind the user's back
    E.claim_true('system-potential-untouched', S.potential['A', 'A'].sigma is None and S.potential['A', 'B'].sigma is None)
    E.claim('canary', E.eq(PR.sys.potential['A', 'B'].sigma, dA), canary=True)


# ----------------------------------------------------------------------------- contact classification (symx-FP)

CONTACT_SITES = ['HardSphere', 'Exponential', 'HardCoreLennardJones', 'PercusYevick', 'HyperNettedChain', 'MeanSphericalApproximation', 'MartynovSarkisov']


def contact_fp(E, N):
    """machine arithmetic: is there a spacing dr, an index i and a contact distance sigma such that the grid point r_i
    coincides with sigma to the tolerance System.check uses (|r_i - sigma| < 1e-6) and yet the core masks (r > sigma) put
    it OUTSIDE the core? The grid is obtained by executing the real Domain.build_grid on a symbolic Float64."""
    import z3, time, struct, fractions
    from vsym import fp
    P = pyPRISM.potential; C = pyPRISM.closure
    if not E.sym:
        dr = E.real('dr', default=0.1); sg = E.real('sigma', default=0.7); i = int(E.real('i', default=6))
        r = pyPRISM.Domain(length=N, dr=dr).r
        on_grid = abs(r[i] - sg) < 1e-6
        if not on_grid:
            return
        high = 1e6
        res = {'HardSphere': P.HardSphere(sigma=sg, high_value=high).calculate(r)[i] == high,
               'Exponential': P.Exponential(epsilon=1.0, alpha=0.5, sigma=sg, high_value=high).calculate(r)[i] == high,
               'HardCoreLennardJones': P.HardCoreLennardJones(epsilon=1.0, sigma=sg, high_value=high).calculate(r)[i] == high}
        g = _np.full(N, 0.25); u = _np.full(N, 0.1)
        for cn in CONTACT_SITES[3:]:
            cl = getattr(C, cn)(apply_hard_core=True); cl.sigma = sg; cl.potential = u
            res[cn] = cl.calculate(r, g)[i] == -1.25
        for k, ok in res.items():
            E.claim_true('contact-inside-core[%s]' % k, bool(ok))
        return
    import pyPRISM.core.Domain as DM
    v = z3.FP('dr', fp.F64); s = z3.FP('sigma', fp.F64)
    npf = fp.NPF(N); saved = DM.np; DM.np = npf
    try:
        D = pyPRISM.Domain(length=N, dr=fp.SF(v))
    finally:
        DM.np = saved
    pre = [z3.fpGEQ(v, fp.fv(1e-3)), z3.fpLEQ(v, fp.fv(1.0)), z3.fpGT(s, fp.fv(0.0)), z3.fpLEQ(s, fp.fv(10.0))]
    found = None
    t0 = time.time()
    for i in range(N):
        ri = D.r[i].t
        sv = z3.Solver(); sv.set('timeout', int(E.timeout_ms))
        sv.add(*pre)
        sv.add(z3.fpLT(z3.fpAbs(z3.fpSub(fp.RNE, ri, s)), fp.fv(1e-6)))     # System.check: sigma is 'on the grid'
        sv.add(z3.fpGT(ri, s))                                             # the masks r > sigma: outside the core
        r = str(sv.check()); E.stats['queries'] += 1
        if r == 'sat':
            m = sv.model()
            dv = struct.unpack('>d', m.eval(z3.fpToIEEEBV(v), model_completion=True).as_long().to_bytes(8, 'big'))[0]
            sgv = struct.unpack('>d', m.eval(z3.fpToIEEEBV(s), model_completion=True).as_long().to_bytes(8, 'big'))[0]
            found = (i, dv, sgv); break
        if r != 'unsat':
            E.results.append(dict(key='contact-classified-inside-core', verdict='unknown', s=0, path='', canary=False)); return
    E.stats['solver_s'] += time.time() - t0
    if found is None:
        E.claim_true('contact-classified-inside-core', True)
        return
    i, dv, sgv = found
    # realistic witness first (round numbers), else the solver's model
    for cand in ((6, 0.1, 0.7), (i, dv, sgv)):
        if cand[0] >= N:
            continue
        p = E._replay('contact-inside-core', {'dr': str(fractions.Fraction(cand[1])), 'sigma': str(fractions.Fraction(cand[2])), 'i': str(cand[0])})
        if p:
            for f in E.violations[-1]['failed']:
                E.results.append(dict(key=f, verdict='violation', s=0, path='', canary=False, replay=p))
            return
    E.results.append(dict(key='contact-classified-inside-core', verdict='sat-not-reproduced', s=0, path='', canary=False))
