"""Shared pieces of the harnesses: oracles written from the property text / the literature
(never from the code), arbitrary-potential and arbitrary-omega user classes, system builders."""
import numpy as _np, math
import pyPRISM
from vsym.core import SR


def to_list(a):
    return [a[i] for i in range(len(a))]


def inc_grid(E, name, L):
    """strictly increasing positive symbolic grid r_0 < r_1 < ... (arbitrary, not equally spaced).
    One variable per point (ordering as an assumption) so that a model value r_i == sigma
    survives the conversion to floats in the replay."""
    a = _np.empty(L, dtype=object if E.sym else float)
    for i in range(L):
        a[i] = E.real('%s_%d' % (name, i), pos=True, default=0.5 * (i + 1))
        if i:
            E.assume(a[i] > a[i - 1])
    return a


# ---- closure oracles (published relations), scalar: gamma, u -> c

def spec_closure(E, name, g, u):
    name = ALIASES.get(name, name)
    if name == 'PercusYevick':
        return (E.exp(-u) - 1.0) * (1.0 + g)
    if name == 'HyperNettedChain':
        return E.exp(g - u) - 1.0 - g
    if name == 'MeanSphericalApproximation':
        return -u + 0.0 * g
    if name == 'MartynovSarkisov':
        # Martynov & Sarkisov 1983: g = exp(-u + sqrt(1+2 gamma) - 1) ; with the renormalised
        # gamma* = gamma - u used for PRISM (Yethiraj & Schweizer 1992): c = exp(sqrt(1+2(gamma-u)) - 1) - 1 - gamma
        return E.exp(E.sqrt(1.0 + 2.0 * (g - u)) - 1.0) - 1.0 - g
    raise KeyError(name)


def shipped_ms(E, g, u):
    """the expression the repository ships (and its own test pins) for Martynov-Sarkisov - used
    only to key the known finding precisely (any *other* deviation is a new violation)."""
    return E.exp(E.sqrt(g - u + 0.5) - 1.0) - 1.0 - g


ALIASES = {'PY': 'PercusYevick', 'HNC': 'HyperNettedChain', 'MSA': 'MeanSphericalApproximation', 'MS': 'MartynovSarkisov'}
CLOSURES = ['PercusYevick', 'HyperNettedChain', 'MeanSphericalApproximation', 'MartynovSarkisov']


# ---- potential oracles (documented u(r)), scalar r -> u ; `inside` decided by caller

def lj(eps, s, r):
    x = s / r
    x6 = x * x * x * x * x * x
    return 4.0 * eps * (x6 * x6 - x6)


def hclj(eps, s, r):
    x = s / r
    x6 = x * x * x * x * x * x
    return eps * (x6 * x6 - 2.0 * x6)


class HavocU(pyPRISM.potential.Potential):
    """An arbitrary user potential: calculate(r) returns fresh symbols (one per grid point)."""
    def __init__(self, E, name):
        self.E = E
        self.name = name
        self.sigma = None
        self.calls = 0

    def __deepcopy__(self, memo):
        c = HavocU(self.E, self.name)
        c.sigma = self.sigma
        return c

    def calculate(self, r):
        self.calls += 1
        return self.E.arr('u' + self.name, (len(r),), default=0.3)


def build_system(E, rank, N, closures=None, flags=None, potentials=None, omegas=None, kT=None, dr=None, grid_diam=True, dname='d'):
    """A fully specified System through the public API with symbolic parameters.
    closures: dict pair->class name ; potentials: dict pair->Potential object (default HavocU)
    omegas: dict pair->Omega object (default FromArray(symbols)).  Diameters are m*dr (on the grid)
    when grid_diam so that System.check's on-grid test is decided without forking."""
    types = ['A', 'B', 'C', 'D'][:rank]
    kT = E.real('kT', pos=True, default=1.3) if kT is None else kT
    S = pyPRISM.System(types, kT=kT)
    dr = E.real('dr', pos=True, default=0.25) if dr is None else dr
    S.domain = pyPRISM.Domain(length=N, dr=dr)
    for i, t in enumerate(types):
        S.density[t] = E.real('rho' + t, pos=True, default=0.2 + 0.1 * i)
        if grid_diam:
            S.diameter[t] = dr * (1 + (i % N)) * 2 if False else dr * (1 + (i % max(N, 1)))
        else:
            S.diameter[t] = E.real(dname + t, pos=True, default=0.5)
    for i, a in enumerate(types):
        for b in types[i:]:
            p = a + b
            S.potential[a, b] = (potentials or {}).get(p) or HavocU(E, p)
            cn = (closures or {}).get(p, 'PercusYevick')
            fl = (flags or {}).get(p, False)
            S.closure[a, b] = getattr(pyPRISM.closure, cn)(apply_hard_core=fl)
            om = (omegas or {}).get(p)
            if om is None:
                om = pyPRISM.omega.FromArray(E.arr('w' + p, (N,), default=0.7))
            S.omega[a, b] = om
    return S


def pairs(types):
    return [(a, b) for i, a in enumerate(types) for b in types[i:]]


# ---- transforms written from the continuous formulas (C08 proves the code equals these)

def oracle_fourier(E, dr, N, f):
    """F(k_j) = 4 pi dr Sum_n r_n f_n sin(k_j (r_n - dr/2)) / k_j, k_j (r_n - dr/2) = pi (j+1)(2n+1)/(2N)"""
    pi = E.pi()
    out = []
    for j in range(N):
        kj = pi * (j + 1) / (dr * N)
        acc = None
        for n in range(N):
            t = (dr * (n + 1)) * f[n] * E.sinpi((j + 1) * (2 * n + 1), 2 * N)
            acc = t if acc is None else acc + t
        out.append(4.0 * pi * dr * acc / kj)
    return out


def oracle_real(E, dr, N, F):
    """f(r_i) = dk/(2 pi^2 r_i) Sum'_n k_n F_n sin(k_n (r_i - dr/2)) (last term halved)"""
    pi = E.pi()
    dk = pi / (dr * N)
    out = []
    for i in range(N):
        acc = None
        for n in range(N):
            t = (dk * (n + 1)) * F[n] * E.sinpi((n + 1) * (2 * i + 1), 2 * N)
            if n == N - 1:
                t = t / 2.0
            acc = t if acc is None else acc + t
        out.append(dk * acc / (2.0 * pi * pi * (dr * (i + 1))))
    return out


class HavocClosure(pyPRISM.closure.AtomicClosure):
    """An arbitrary user closure: calculate returns fresh symbols (used where the claim must hold for any c(r))."""
    def __init__(self, E, name):
        self.E = E; self.name = name
        self.potential = None; self.sigma = None; self.value = None
        self.calls = 0

    def __deepcopy__(self, memo):
        c = HavocClosure(self.E, self.name)
        return c

    def calculate(self, r, gamma):
        self.calls += 1
        self.value = self.E.arr('c%s_%d' % (self.name, self.calls), (len(r),), default=-0.3)
        return self.value


def mm(A, B):
    n = len(A)
    return [[sum((A[i][k] * B[k][j] for k in range(1, n)), A[i][0] * B[0][j]) for j in range(n)] for i in range(n)]


def record_closures(P, types):
    """wrap the calculate method of the closure objects *inside the PRISM object* so that the real-space closure
    output of every cost() evaluation is visible (instance attribute; the pyPRISM modules are untouched)."""
    rec = {}
    for i, a in enumerate(types):
        for b in types[i:]:
            cl = P.sys.closure[a, b]
            orig = cl.calculate

            def wrapped(r, gamma, orig=orig, key=(a, b)):
                out = orig(r, gamma)
                rec[key] = dict(gamma=[gamma[i] for i in range(len(gamma))], out=[out[i] for i in range(len(out))], r=[r[i] for i in range(len(r))])
                return out
            cl.calculate = wrapped
    return rec
