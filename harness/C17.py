"""C17 - UnitConverter conversions: a*x+b with the textbook constants, for all x."""
import numpy as _np, math, z3
import pyPRISM
from vsym.core import SR, Fraction, cfrac

PROP = 'C17'
BATCH = 4
BOUNDS = dict(dc=[1.0, 1.5, 0.37], dc_unit=['nanometer', 'angstrom'], ec=[[2.48, 'kilojoule/mole'], [1.0, 'kilocalorie/mole'], [4.1e-21, 'joule'], [2.48, 'kJ/mol'], [1.0, 'kcal/mol'], [0.0103235, 'eV']], x='any real scalar; 2-element arrays', diameter='any positive real (toVolumeFraction)')
OUTSIDE = ['unit strings other than the listed ones (they go through pint\'s parser and are concrete)', 'mc (no documented conversion uses it)']
ASSUMPTIONS = ['reference constants carried by the harness: k_B = 1.380649e-23 J/K, N_A = 6.02214076e23 /mol (SI 2019, exact), 1 kcal = 4184 J, 0 degC = 273.15 K; agreement is required to 1e-9 relative',
               'pint multiplies an unknown magnitude type through (the symbolic scalar takes the place of the float); coefficients are extracted from the returned term by evaluating it at 0 and 1 and the solver proves the term equals a*x+b for all x']

KB = Fraction('1.380649e-23'); NA = Fraction('6.02214076e23')
LEN = {'nanometer': Fraction(1, 10 ** 9), 'angstrom': Fraction(1, 10 ** 10)}
EN = {'kilojoule/mole': (Fraction(1000), True), 'kilocalorie/mole': (Fraction(4184), True), 'joule': (Fraction(1), False),
      'kJ/mol': (Fraction(1000), True), 'kcal/mol': (Fraction(4184), True), 'eV': (Fraction('1.602176634e-19'), False)}
METHODS = ['toKelvin', 'toCelcius', 'toInvAngstrom', 'toInvNanometer', 'toConcentration', 'toVolumeFraction']


def instances(tier):
    out = []
    for dc in BOUNDS['dc']:
        for du in BOUNDS['dc_unit']:
            for ec, eu in BOUNDS['ec']:
                if tier == 'quick' and not ((dc, du) in ((1.0, 'nanometer'), (1.5, 'angstrom')) or (ec, eu) == (2.48, 'kilojoule/mole')):
                    continue
                for m in METHODS:
                    if m in ('toKelvin', 'toCelcius') and tier == 'quick' and (dc, du) != (1.0, 'nanometer'):
                        continue
                    if m not in ('toKelvin', 'toCelcius') and tier == 'quick' and (ec, eu) != (2.48, 'kilojoule/mole'):
                        continue
                    out.append(dict(name='%s[dc=%s %s,ec=%s %s]' % (m, dc, du, ec, eu), fn='convert', args=dict(method=m, dc=dc, dc_unit=du, ec=ec, ec_unit=eu)))
    return out


def reference(method, dc, du, ec, eu):
    """(a, b, units) of the textbook formula magnitude = a*x + b"""
    d_m = Fraction(str(dc)) * LEN[du]
    e_j, molar = EN[eu]
    e_j = Fraction(str(ec)) * e_j
    TK = e_j / (KB * NA) if molar else e_j / KB
    if method == 'toKelvin':
        return TK, Fraction(0), 'kelvin'
    if method == 'toCelcius':
        return TK, -Fraction('273.15'), 'degree_Celsius'
    if method == 'toInvAngstrom':
        return 1 / (d_m * 10 ** 10), Fraction(0), '1 / angstrom'
    if method == 'toInvNanometer':
        return 1 / (d_m * 10 ** 9), Fraction(0), '1 / nanometer'
    if method == 'toConcentration':
        return 1 / ((d_m * 10) ** 3 * NA), Fraction(0), 'mole / liter'
    if method == 'toVolumeFraction':
        return Fraction(math.pi) / 6, Fraction(0), 'dimensionless'
    raise KeyError(method)


def _subst(sr, pairs):
    n = z3.simplify(z3.substitute(sr.n, *pairs)); d = z3.simplify(z3.substitute(sr.d, *pairs))
    return cfrac(n) / cfrac(d)


def convert(E, method, dc, dc_unit, ec, ec_unit):
    # another converter with different characteristic values has been created and used before in the same process:
    # converters are independent of each other
    decoy = pyPRISM.util.UnitConverter(dc=dc * 3.0, dc_unit='angstrom' if dc_unit == 'nanometer' else 'nanometer', ec=ec * 7.0, ec_unit=ec_unit)
    for m_ in ('toKelvin', 'toInvAngstrom', 'toInvNanometer', 'toConcentration'):
        getattr(decoy, m_)(1.0)
    uc = pyPRISM.util.UnitConverter(dc=dc, dc_unit=dc_unit, ec=ec, ec_unit=ec_unit)
    x = E.real('x', default=1.7)
    d = E.real('d', pos=True, default=0.8)
    a_ref, b_ref, units = reference(method, dc, dc_unit, ec, ec_unit)
    args = (x, d) if method == 'toVolumeFraction' else (x,)
    q, exc = E.expect_no_raise('%s-returns' % method, lambda: getattr(uc, method)(*args))
    if exc is not None:
        return
    E.reachable('convert')
    E.claim_true('is-a-quantity', hasattr(q, 'magnitude') and hasattr(q, 'units'))
    E.claim_true('units==%s' % units, str(q.units) == units)
    mag = q.magnitude          # what a user reads off the returned quantity
    arg = x * d * d * d if method == 'toVolumeFraction' else x
    if E.sym:
        m = SR.lift(mag)
        xv = E.inputs['x']; dv = E.inputs['d']
        b_code = _subst(m, [(xv, z3.RealVal(0)), (dv, z3.RealVal(1))])
        a_code = _subst(m, [(xv, z3.RealVal(1)), (dv, z3.RealVal(1))]) - b_code
        E.claim_eq('magnitude==a*x+b-for-all-x', m, SR.lift(a_code) * arg + SR.lift(b_code))
        E.claim_true('a==textbook(1e-9)', abs(a_code - a_ref) <= abs(a_ref) / 10 ** 9)
        E.claim_true('b==textbook(1e-9)', abs(b_code - b_ref) <= abs(b_ref) / 10 ** 9 + (0 if b_ref else Fraction(1, 10 ** 30)))
        E.claim('canary', E.eq(m, SR.lift(a_code) * arg + SR.lift(b_code) + 1), canary=True)
    else:
        want = float(a_ref) * float(arg) + float(b_ref)
        E.claim('magnitude==textbook', abs(float(mag) - want) <= 1e-9 * max(abs(want), abs(float(b_ref)), 1e-300))
    # a scalar zero is valid numeric input (linearity: f(0) = b)
    if method != 'toVolumeFraction':
        q0, exc0 = E.expect_no_raise('%s(0.0)-returns' % method, lambda: getattr(uc, method)(0.0))
        if exc0 is None and not E.sym:
            E.claim('%s(0.0)==b' % method, abs(float(q0.magnitude) - float(b_ref)) <= 1e-9 * max(abs(float(b_ref)), 1e-300) + 1e-300)
        elif exc0 is None:
            E.claim_true('%s(0.0)==b' % method, abs(Fraction(float(q0.magnitude)) - b_ref) <= abs(b_ref) / 10 ** 9 + Fraction(1, 10 ** 30))
    # the two wavenumber conversions on ONE converter, in both orders, stay consistent (no shared cached factor)
    if method in ('toInvAngstrom', 'toInvNanometer'):
        other = 'toInvNanometer' if method == 'toInvAngstrom' else 'toInvAngstrom'
        qo, exco = E.expect_no_raise('%s-after-%s-returns' % (other, method), lambda: getattr(uc, other)(x))
        qm, excm = E.expect_no_raise('%s-again-returns' % method, lambda: getattr(uc, method)(x))
        if exco is None and excm is None:
            E.claim_eq('%s-unchanged-after-%s' % (method, other), qm.magnitude, mag)
            ang, nm = (mag, qo.magnitude) if method == 'toInvAngstrom' else (qo.magnitude, mag)
            E.claim_eq('k[1/nm]==10*k[1/angstrom]', nm, ang * 10.0)
    # elementwise on arrays
    arr = _np.empty(2, dtype=object if E.sym else float)
    arr[0] = x; arr[1] = E.real('x2', default=-0.4)
    aargs = (arr, d) if method == 'toVolumeFraction' else (arr,)
    a_snap = [arr[0], arr[1]]
    qa, exc = E.expect_no_raise('%s-array-returns' % method, lambda: getattr(uc, method)(*aargs))
    E.claim_true('caller-array-unmodified', all((arr[i] is a_snap[i]) if E.sym else (arr[i] == a_snap[i]) for i in range(2)))
    if exc is None:
        ma = qa.magnitude
        E.claim_true('array-shape', _np.shape(ma) == (2,))
        E.claim_eq('array-elementwise[0]', ma[0], mag)
        qb, exc2 = E.expect_no_raise('%s-array-second-call-returns' % method, lambda: getattr(uc, method)(*aargs))
        if exc2 is None:
            E.claim_eq('array-second-call-same[0]', qb.magnitude[0], mag)
