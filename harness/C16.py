"""C16 - a PRISM object is a faithful, isolated snapshot of a fully specified System."""
import numpy as _np, itertools, traceback, os
import pyPRISM
from pyPRISM.core.Space import Space
from vsym.core import SB
import z3
from .prism import build, pair_list, ckey, rho_site, sigma, u_values, grid_r
from . import C01 as _C01

PROP = 'C16'
BATCH = 2
TIMEOUT = {'quick': 900, 'thorough': 3000}
BOUNDS = dict(missing='rank 1: every subset of the 6 specification items (exhaustive, 64 masks as symbolic booleans); rank 2: every subset of size <= 2 of the 14 items (quick) / <= 3 (thorough)',
              wiring='rank 2, N=3, every shipped potential and closure class in some pair, omega from Gaussian / SingleSite / NoIntra / FromArray, all parameters symbolic',
              isolation='rank 2, N=2: System snapshot before/after createPRISM, cost, solve(stub); memory sharing; edits of every System field afterwards',
              sweep='rank 2, N=2: a System edited field by field (density, diameter, kT, potential, closure, omega, domain) vs a freshly built System with the final parameters')
OUTSIDE = ['the numerical solve itself (root stub as in C01): equal wiring + equal x gives equal results, scipy being deterministic is assumed', 'rank > 2, N > 3']
ASSUMPTIONS = ['"never starts a calculation": on a partial system the exception is a ValueError raised inside check() (innermost pyPRISM frame), no PRISM object is returned and the root finder is never called']


def PATCH_EXTRA(inst):
    return {'root': _C01.root_stub}


ITEMS1 = ['density:A', 'diameter:A', 'potential:AA', 'closure:AA', 'omega:AA', 'domain']
ITEMS2 = ['density:A', 'density:B', 'diameter:A', 'diameter:B', 'potential:AA', 'potential:AB', 'potential:BB', 'closure:AA', 'closure:AB', 'closure:BB', 'omega:AA', 'omega:AB', 'omega:BB', 'domain']


def instances(tier):
    out = [dict(name='missing[r1,all-masks]', fn='missing_sym', args=dict(rank=1), max_paths=256)]
    kmax = 2 if tier == 'quick' else 3
    subsets = [c for k in range(0, kmax + 1) for c in itertools.combinations(range(len(ITEMS2)), k)]
    chunk = 40
    for i in range(0, len(subsets), chunk):
        out.append(dict(name='missing[r2,subsets%d-%d]' % (i, min(i + chunk, len(subsets)) - 1), fn='missing_list', args=dict(rank=2, subsets=[list(s) for s in subsets[i:i + chunk]])))
    out.append(dict(name='wiring[r2,N3,a]', fn='wiring', args=dict(variant='a'), query_timeout_ms=120000))
    out.append(dict(name='wiring[r2,N3,b]', fn='wiring', args=dict(variant='b'), query_timeout_ms=120000))
    out.append(dict(name='wiring[r2,N2,group-assign]', fn='wiring', args=dict(variant='group'), query_timeout_ms=120000))
    out.append(dict(name='isolation[r2,N2]', fn='isolation', args={}, query_timeout_ms=120000))
    for field in ('density', 'diameter', 'kT', 'potential', 'closure', 'omega', 'domain', 'all'):
        out.append(dict(name='sweep[%s]' % field, fn='sweep', args=dict(field=field), query_timeout_ms=120000))
    return out


# ----------------------------------------------------------------------------- missing specifications

def _partial(E, rank, present):
    types = ['A', 'B'][:rank]
    S = pyPRISM.System(types, kT=1.0)
    dr = 0.25
    for item, here in present.items():
        if not here:
            continue
        kind, _, who = item.partition(':')
        if kind == 'domain':
            S.domain = pyPRISM.Domain(length=4, dr=dr)
        elif kind == 'density':
            S.density[who] = 0.3
        elif kind == 'diameter':
            S.diameter[who] = 0.5
        elif kind == 'potential':
            S.potential[who[0], who[1]] = pyPRISM.potential.HardSphere()
        elif kind == 'closure':
            S.closure[who[0], who[1]] = pyPRISM.closure.PercusYevick()
        elif kind == 'omega':
            S.omega[who[0], who[1]] = pyPRISM.omega.SingleSite() if who[0] == who[1] else pyPRISM.omega.NoIntra()
    return S


def _expect(E, tag, S, complete):
    for name, call in (('check', lambda: S.check()), ('createPRISM', lambda: S.createPRISM()), ('solve', lambda: S.solve(options={'disp': False}))):
        _C01.STUB_LOG.clear(); _C01.STUB_LOG['E'] = E
        try:
            r = call(); exc = None
        except Exception as e:
            r = None; exc = e
        if complete:
            E.claim_true('%s:%s-succeeds-on-complete-system' % (tag, name), exc is None)
        else:
            ok = isinstance(exc, ValueError)
            where = ''
            if exc is not None:
                fr = [f for f in traceback.extract_tb(exc.__traceback__) if '/pyPRISM/' in f.filename]
                where = fr[-1].name if fr else ''
            E.claim_true('%s:%s-raises-ValueError-on-partial-system' % (tag, name), ok)
            E.claim_true('%s:%s-raised-by-check-before-any-calculation' % (tag, name), ok and where == 'check' and r is None and (not E.sym or not _C01.STUB_LOG.get('calls')))


def missing_sym(E, rank):
    """every subset at once: which items are supplied is a vector of symbolic booleans (the executor forks on each)"""
    items = ITEMS1 if rank == 1 else ITEMS2
    present = {}
    for it in items:
        nm = 'has_' + it.replace(':', '_')
        if E.sym:
            v = z3.Real(nm); E.inputs[nm] = v
            E.ctx.assumes.append(z3.Or(v == 0, v == 1))
            present[it] = bool(SB(v == 1))
        else:
            present[it] = float(E.values.get(nm, 1)) == 1.0
    S = _partial(E, rank, present)
    E.reachable('missing')
    _expect(E, 'mask', S, all(present.values()))


def missing_list(E, rank, subsets):
    items = ITEMS1 if rank == 1 else ITEMS2
    for sub in subsets:
        present = {it: (i not in sub) for i, it in enumerate(items)}
        S = _partial(E, rank, present)
        _expect(E, 'missing=%s' % ','.join(items[i] for i in sub) if sub else 'complete', S, not sub)


# ----------------------------------------------------------------------------- wiring

def wiring(E, variant):
    N = 3 if variant != 'group' else 2
    om = pyPRISM.omega
    if variant == 'a':
        pots = {'AA': dict(kind='HardSphere', high='sym'), 'AB': dict(kind='Exponential', high='sym'), 'BB': dict(kind='LennardJones')}
        cls = {'AA': 'PercusYevick', 'AB': 'HyperNettedChain', 'BB': 'MeanSphericalApproximation'}; fl = {'BB': True}
        oms = {'AA': 'array', 'AB': 'NoIntra', 'BB': 'SingleSite'}
        kw = dict(psigma={'BB': 1})
    elif variant == 'b':
        pots = {'AA': dict(kind='HardCoreLennardJones', high='sym'), 'AB': 'havoc', 'BB': dict(kind='HardSphere')}
        cls = {'AA': 'MartynovSarkisov', 'AB': 'PercusYevick', 'BB': 'HyperNettedChain'}; fl = {'AA': True, 'AB': True}
        oms = {'AA': 'gaussian', 'AB': 'InterMolecular', 'BB': 'array'}
        kw = dict(kT_reassign=True)
    else:
        pots = {'*': dict(kind='HardSphere', high='sym')}; cls = {'*': 'HyperNettedChain'}; fl = {'*': True}
        oms = {'AA': 'SingleSite', 'AB': 'NoIntra', 'BB': 'array'}
        kw = dict(group_assign=True)
    gauss = None
    if 'gaussian' in oms.values():
        # Gaussian chain omega with symbolic sigma, length 5: oracle = the documented closed form
        gs = E.real('gsig', pos=True, default=0.9)
        gauss = (gs, 5)
        oms = dict(oms); oms['AA'] = 'PENDING'
    B = None
    if gauss:
        # build needs the omega values on the k grid: they depend on dr, so build twice is avoided by a lazy list
        class Lazy(list):
            pass
        vals = Lazy()
        oms['AA'] = (om.Gaussian(sigma=gauss[0], length=gauss[1]), vals)
    B = build(E, 2, N, closures=cls, flags=fl, potentials=pots, omegas=oms, diam={'A': 1, 'B': 2}, **kw)
    if gauss:
        pi = E.pi()
        for j in range(N):
            k = pi * (j + 1) / (B.dr * N)
            Ex = E.exp(-(k * k * gauss[0] * gauss[0]) / 6.0)
            Nn = gauss[1]
            EN1 = Ex
            for _ in range(Nn):
                EN1 = EN1 * Ex
            vals.append((1.0 - Ex * Ex - 2.0 * Ex / Nn + 2.0 * EN1 / Nn) / ((1.0 - Ex) * (1.0 - Ex)))
    S = B.S
    P = S.createPRISM()
    E.reachable('wiring')
    types = B.types
    r = grid_r(B)
    E.claim_true('flags', P.omega.space == Space.Fourier and P.directCorr.space == Space.Real and P.totalCorr.space == Space.Fourier)
    E.claim_true('lengths', P.omega.data.shape == (N, 2, 2) and P.directCorr.data.shape == (N, 2, 2) and P.totalCorr.data.shape == (N, 2, 2) and len(P.x) == N * 4)
    E.claim_eq('kT', P.sys.kT, B.kT)
    for j in range(N):
        for i, a in enumerate(types):
            for l, b in enumerate(types):
                E.claim_eq('omega==omega_spec(k)*rho_site[k%d][%s%s]' % (j, a, b), P.omega.data[j, i, l], B.w[ckey(a, b)][j] * rho_site(B, a, b))
    for (a, b) in pair_list(types):
        p = ckey(a, b)
        cl = P.sys.closure[a, b]
        E.claim_eq('closure.sigma==(da+db)/2[%s]' % p, cl.sigma, sigma(B, a, b))
        E.claim_eq('potential.sigma[%s]' % p, P.sys.potential[a, b].sigma, B.psigma.get(p, sigma(B, a, b)))
        uo = u_values(E, B, P, a, b)
        for i in range(N):
            E.claim_eq('closure.potential==u(r)/kT[%s][%d]' % (p, i), cl.potential[i], uo[i] / B.kT)
        E.claim_true('closure-class[%s]' % p, type(cl).__name__ == B.closure[p] and cl.apply_hard_core == B.flag[p])
    for i in range(N):
        E.claim_eq('domain.r[%d]' % i, P.sys.domain.r[i], r[i])
    # every pair has its own closure / potential object
    objs = [id(P.sys.closure[a, b]) for a, b in pair_list(types)] + [id(P.sys.potential[a, b]) for a, b in pair_list(types)]
    E.claim_true('per-pair-objects-distinct', len(set(objs)) == len(objs))
    E.claim('canary', E.eq(P.omega.data[0, 0, 1], B.w['AB'][0] * B.rho['A'] + 1.0), canary=True)


# ----------------------------------------------------------------------------- isolation

def _snapshot(S):
    snap = {}
    snap['kT'] = S.kT; snap['types'] = list(S.types); snap['domain'] = S.domain
    for nm in ('r', 'k', 'DST_II_coeffs', 'DST_III_coeffs'):
        a = getattr(S.domain, nm)
        snap['domain.' + nm] = (a, [a[i] for i in range(len(a))])
    snap['domain.scalars'] = (S.domain.dr, S.domain.dk, S.domain.length)
    for t in S.types:
        snap['density:' + t] = S.density[t]; snap['diameter:' + t] = S.diameter[t]
    snap['density.total'] = S.density.total
    snap['pair'] = [S.density.pair.data[idx] for idx in _np.ndindex(*S.density.pair.data.shape)]
    snap['site'] = [S.density.site.data[idx] for idx in _np.ndindex(*S.density.site.data.shape)]
    for i, a in enumerate(S.types):
        for b in S.types[i:]:
            for tab in ('potential', 'closure', 'omega'):
                o = getattr(S, tab)[a, b]
                snap['%s:%s%s' % (tab, a, b)] = (o, dict((k, v) for k, v in vars(o).items() if k != 'E'))
            snap['sigma:%s%s' % (a, b)] = S.diameter.sigma[a, b]
    return snap


def _same(x, y):
    if isinstance(x, _np.ndarray) or isinstance(y, _np.ndarray):
        return x is y
    if hasattr(x, 'n') or hasattr(y, 'n'):
        return x is y
    if isinstance(x, (list, tuple)) and isinstance(y, (list, tuple)):
        return len(x) == len(y) and all(_same(a, b) for a, b in zip(x, y))
    if isinstance(x, dict) and isinstance(y, dict):
        return x.keys() == y.keys() and all(_same(x[k], y[k]) for k in x)
    try:
        return x is y or bool(x == y)
    except Exception:
        return x is y


def _unchanged(E, tag, S, snap):
    now = _snapshot(S)
    for k in snap:
        a, b = snap[k], now.get(k)
        if isinstance(a, tuple) and len(a) == 2 and not isinstance(a[0], (int, float)) and k != 'domain.scalars':
            ok = a[0] is b[0] and _same(a[1], b[1])
        else:
            ok = _same(a, b)
        E.claim_true('%s:system-unchanged[%s]' % (tag, k), ok)


def _arrays_of(obj, seen=None, depth=0):
    """every numpy array reachable from obj through attributes / dicts / lists"""
    seen = seen if seen is not None else {}
    if id(obj) in seen or depth > 6:
        return []
    seen[id(obj)] = obj
    out = []
    if isinstance(obj, _np.ndarray):
        return [obj]
    if isinstance(obj, dict):
        for v in obj.values():
            out += _arrays_of(v, seen, depth + 1)
    elif isinstance(obj, (list, tuple)):
        for v in obj:
            out += _arrays_of(v, seen, depth + 1)
    elif hasattr(obj, '__dict__') and type(obj).__module__.startswith(('pyPRISM', 'harness')):
        for k, v in vars(obj).items():
            if k in ('E',):
                continue
            out += _arrays_of(v, seen, depth + 1)
    return out


def isolation(E):
    N = 2
    B = build(E, 2, N, closures={'AA': 'PercusYevick', 'AB': 'HyperNettedChain', 'BB': 'MeanSphericalApproximation'}, flags={'BB': True},
              potentials={'AA': dict(kind='HardSphere', high='sym'), 'AB': dict(kind='LennardJones'), 'BB': 'havoc'}, diam={'A': 1, 'B': 2})
    S = B.S
    snap = _snapshot(S)
    P = S.createPRISM()
    E.reachable('isolation')
    _unchanged(E, 'after-createPRISM', S, snap)
    x = E.arr('x', (N * 4,), default=0.1)
    y = P.cost(x)
    _unchanged(E, 'after-cost', S, snap)
    _C01.STUB_LOG.clear(); _C01.STUB_LOG['E'] = E
    P2 = S.solve(options={'disp': False})
    _unchanged(E, 'after-solve', S, snap)
    # no numpy array reachable from the PRISM objects shares memory with one reachable from the System
    sys_arrays = _arrays_of(S)
    for nm, Q in (('P', P), ('P2', P2)):
        shared = [1 for a in _arrays_of(Q) for b in sys_arrays if a is b or (a.size and b.size and _np.shares_memory(a, b))]
        E.claim_true('%s-shares-no-array-with-system' % nm, not shared)
        E.claim_true('%s.sys-is-a-copy' % nm, Q.sys is not S and Q.sys.domain is not S.domain and Q.sys.density is not S.density and
                     all(Q.sys.closure[a, b] is not S.closure[a, b] and Q.sys.potential[a, b] is not S.potential[a, b] and Q.sys.omega[a, b] is not S.omega[a, b] for a, b in pair_list(B.types)))
    # later edits of the System do not reach the PRISM object: its wiring and its next evaluation are unchanged
    before = dict(omega=[P.omega.data[idx] for idx in _np.ndindex(*P.omega.data.shape)],
                  pot=[[P.sys.closure[a, b].potential[i] for i in range(N)] for a, b in pair_list(B.types)],
                  sig=[P.sys.closure[a, b].sigma for a, b in pair_list(B.types)], y=[y[i] for i in range(len(y))])
    S.density['A'] = B.rho['A'] * 3.0; S.diameter['B'] = B.d['B'] * 2.0; S.kT = B.kT * 5.0
    S.potential['A', 'A'] = pyPRISM.potential.LennardJones(epsilon=2.0); S.closure['A', 'B'] = pyPRISM.closure.PercusYevick(apply_hard_core=True)
    S.omega['A', 'A'] = pyPRISM.omega.SingleSite(); S.domain.dr = B.dr * 2.0
    S.domain = pyPRISM.Domain(length=N, dr=B.dr * 3.0)
    now = [P.omega.data[idx] for idx in _np.ndindex(*P.omega.data.shape)]
    E.claim_true('edits:omega-unchanged', _same(before['omega'], now))
    E.claim_true('edits:closure-potentials-unchanged', _same(before['pot'], [[P.sys.closure[a, b].potential[i] for i in range(N)] for a, b in pair_list(B.types)]))
    E.claim_true('edits:closure-sigma-unchanged', _same(before['sig'], [P.sys.closure[a, b].sigma for a, b in pair_list(B.types)]))
    y2 = P.cost(x)
    for i in range(len(y2)):
        E.claim_eq('edits:cost-unchanged[%d]' % i, y2[i], before['y'][i])
    E.claim('canary', E.eq(P.omega.data[0, 0, 0], B.w['AA'][0] * B.rho['A'] * 3.0), canary=True)


# ----------------------------------------------------------------------------- sweeps

def sweep(E, field):
    """a System built for theta1 and edited to theta2 gives the same PRISM wiring (and the same cost map) as a fresh System(theta2)"""
    N = 2
    P_ = pyPRISM.potential
    kw = dict(closures={'AA': 'PercusYevick', 'AB': 'HyperNettedChain', 'BB': 'MeanSphericalApproximation'}, flags={'BB': True},
              potentials={'AA': dict(kind='HardSphere', high='sym'), 'AB': dict(kind='LennardJones'), 'BB': 'havoc'}, diam={'A': 1, 'B': 2})
    # theta2 (fresh)
    F = build(E, 2, N, **kw)
    # theta1: other values for the field(s) that will be edited
    fields = ['density', 'diameter', 'kT', 'potential', 'closure', 'omega', 'domain'] if field == 'all' else [field]
    kw1 = dict(kw)
    if 'diameter' in fields:
        kw1['diam'] = {'A': 2, 'B': 2}              # theta1 is BUILT with another d_A; only A is re-assigned later
    S = build(E, 2, N, prefix='', rho=({'A': F.rho['A'] * 7.0} if 'density' in fields else None), **kw1).S   # same symbols otherwise
    # a first PRISM object is created (and evaluated) for theta1 before the edits, as in a parameter sweep
    for f in fields:
        if f in ('density', 'diameter'):
            pass                                      # built differently (see above)
        elif f == 'kT':
            S.kT = F.kT * 3.0
        elif f == 'potential':
            S.potential['A', 'B'] = P_.HardSphere()
        elif f == 'closure':
            S.closure['A', 'B'] = pyPRISM.closure.PercusYevick(apply_hard_core=True)
        elif f == 'omega':
            S.omega['A', 'B'] = pyPRISM.omega.SingleSite()
        elif f == 'domain':
            S.domain.dr = F.dr * 2.0
    P1 = S.createPRISM()
    x = E.arr('x', (N * 4,), default=0.1)
    P1.cost(x)
    # edit to theta2
    for f in fields:
        if f == 'density':
            S.density['A'] = F.rho['A']          # only the edited type is re-assigned: everything derived from it must follow
        elif f == 'diameter':
            S.diameter['A'] = F.d['A']
        elif f == 'kT':
            S.kT = F.kT
        elif f == 'potential':
            S.potential['A', 'B'] = F.S.potential['A', 'B']
        elif f == 'closure':
            S.closure['A', 'B'] = F.S.closure['A', 'B']
        elif f == 'omega':
            S.omega['A', 'B'] = F.S.omega['A', 'B']
        elif f == 'domain':
            S.domain.dr = F.dr
    Pe = S.createPRISM(); Pf = F.S.createPRISM()
    E.reachable('sweep')
    for idx in _np.ndindex(*Pf.omega.data.shape):
        E.claim_eq('omega%s' % list(idx), Pe.omega.data[idx], Pf.omega.data[idx])
    for (a, b) in pair_list(F.types):
        E.claim_eq('closure.sigma[%s%s]' % (a, b), Pe.sys.closure[a, b].sigma, Pf.sys.closure[a, b].sigma)
        E.claim_eq('potential.sigma[%s%s]' % (a, b), Pe.sys.potential[a, b].sigma, Pf.sys.potential[a, b].sigma)
        E.claim_true('closure-class[%s%s]' % (a, b), type(Pe.sys.closure[a, b]) is type(Pf.sys.closure[a, b]) and Pe.sys.closure[a, b].apply_hard_core == Pf.sys.closure[a, b].apply_hard_core)
        for i in range(N):
            E.claim_eq('u/kT[%s%s][%d]' % (a, b, i), Pe.sys.closure[a, b].potential[i], Pf.sys.closure[a, b].potential[i])
    for nm in ('pair', 'site'):
        for idx in _np.ndindex(1, 2, 2):
            E.claim_eq('density.%s%s' % (nm, list(idx)), getattr(Pe.sys.density, nm).data[idx], getattr(Pf.sys.density, nm).data[idx])
    for i in range(N):
        E.claim_eq('r[%d]' % i, Pe.sys.domain.r[i], Pf.sys.domain.r[i]); E.claim_eq('k[%d]' % i, Pe.sys.domain.k[i], Pf.sys.domain.k[i])
    ye = Pe.cost(x); yf = Pf.cost(x)
    # the wiring entries proven equal above are abstracted (same value, possibly written differently, e.g. rhoB*rhoA):
    # equal wiring => equal cost map
    inter = []; lem = []
    if E.sym:
        for a_, b_ in ((Pe.omega.data, Pf.omega.data), (Pe.sys.density.pair.data, Pf.sys.density.pair.data)):
            for idx in _np.ndindex(*b_.shape):
                if hasattr(a_[idx], 'n') and hasattr(b_[idx], 'n'):
                    inter += [a_[idx], b_[idx]]; lem.append((a_[idx], b_[idx]))
    for i in range(len(yf)):
        E.claim_eq('cost[%d]' % i, ye[i], yf[i], abstract=inter or None, lemmas=lem or None)
    E.claim('canary', E.eq(Pe.omega.data[0, 0, 0], Pf.omega.data[0, 0, 0] + 1.0), canary=True)
