"""C01 - every evaluation of the real PRISM.cost satisfies the matrix PRISM equation, each pair's closure with
that pair's u/kT, and the residual relation; PRISM.solve / System.solve leave the arrays of the returned root."""
import numpy as _np
import pyPRISM
from pyPRISM.core.Space import Space
from .prism import build, claim_cost, pair_list, grid_r
from .common import record_closures, oracle_real

PROP = 'C01'
TIMEOUT = {'quick': 900, 'thorough': 3000}
BOUNDS = dict(rank='1-3', N='2-3 grid points (rank 3: N=2)', closures='PY, HNC, MSA, MS x hard-core flag, different per pair', potentials='arbitrary (fresh symbol per grid point and pair)',
              omega='arbitrary tabulated omega per pair and k', parameters='any positive densities, kT, dr>=1e-3; diameters are multiples of dr', x='arbitrary (not necessarily symmetric) trial vector')
OUTSIDE = ['the iteration of scipy.optimize.root between evaluations of cost (replaced by a stub that evaluates cost at the guess and at one arbitrary point and returns the latter; the contract "result.x is the last evaluated point and result.fun its value" is validated concretely on the real solver each run)',
           'that success implies a small residual; the mean-value step from the residual to the closure discrepancy (pen and paper, DESIGN 3/C01)', 'N > 3, rank > 3; rounding error',
           'MS closure: the shipped expression is the oracle here (its deviation from the published relation is the C09 known finding)']
ASSUMPTIONS = ['det(I - Omega C) != 0 (side condition of the matrix inverse)', 'dr >= 1e-3 so that System.check\'s on-grid tests (|r_i - d| < 1e-6) are decided, not forked']


def PATCH_EXTRA(inst):
    if inst['fn'] == 'solve_step':
        return {'root': root_stub}
    return {}


def instances(tier):
    out = []
    CL = ['PercusYevick', 'HyperNettedChain', 'MeanSphericalApproximation', 'MartynovSarkisov']
    # rank 1: every closure x flag, N = 2, 3
    for cl in CL:
        for fl in (False, True):
            for N in (2, 3):
                out.append(dict(name='cost[r1,N%d,%s,hc=%s]' % (N, cl, fl), fn='cost_step', args=dict(rank=1, N=N, closures={'AA': cl}, flags={'AA': fl}), query_timeout_ms=120000))
    # rank 2: three different closures / flags on the three pairs, rotated so every closure meets every pair position
    combos = [({'AA': 'PercusYevick', 'AB': 'HyperNettedChain', 'BB': 'MeanSphericalApproximation'}, {'AA': True, 'AB': False, 'BB': True}),
              ({'AA': 'HyperNettedChain', 'AB': 'MartynovSarkisov', 'BB': 'PercusYevick'}, {'AA': False, 'AB': True, 'BB': False}),
              ({'AA': 'MeanSphericalApproximation', 'AB': 'PercusYevick', 'BB': 'HyperNettedChain'}, {'AA': False, 'AB': True, 'BB': True})]
    for k, (cls, fls) in enumerate(combos):
        for N in ((2,) if tier == 'quick' else (2, 3)):
            out.append(dict(name='cost[r2,N%d,mix%d]' % (N, k), fn='cost_step', args=dict(rank=2, N=N, closures=cls, flags=fls), query_timeout_ms=240000, timeout=1500))
    out.append(dict(name='cost[r2,N2,havoc-closure]', fn='cost_step', args=dict(rank=2, N=2, closures={'AA': 'Havoc', 'AB': 'Havoc', 'BB': 'Havoc'}, flags={}), query_timeout_ms=240000))
    # rank 3: arbitrary closures (fresh symbols) for the matrix stage, real closures for wiring/residual
    out.append(dict(name='matrix[r3,N2]', fn='matrix_step', args=dict(rank=3, N=2), query_timeout_ms=30000, timeout=3000))
    out.append(dict(name='matrix[r2,N3]', fn='matrix_step', args=dict(rank=2, N=3), query_timeout_ms=30000, timeout=3000))
    if False:
        out.append(dict(name='cost[r3,N2,havoc-closure]', fn='cost_step', args=dict(rank=3, N=2, closures={p: 'Havoc' for p in ('AA', 'AB', 'AC', 'BB', 'BC', 'CC')}, flags={}), query_timeout_ms=600000, timeout=5000))
    out.append(dict(name='create[r3,N2,wiring]', fn='create_step', args=dict(rank=3, N=2)))
    if tier == 'thorough':
      out.append(dict(name='cost[r3,N2,wiring]', fn='cost_step', args=dict(rank=3, N=2, closures={'AA': 'PercusYevick', 'AB': 'HyperNettedChain', 'AC': 'MeanSphericalApproximation', 'BB': 'HyperNettedChain', 'BC': 'PercusYevick', 'CC': 'MeanSphericalApproximation'},
                                                                       flags={'AA': True, 'BC': True, 'CC': True}, claims=['B', 'C']), query_timeout_ms=240000, timeout=1500))
    # configurations that need something specific: one list assignment for all pairs (values must be independent
    # copies), kT assigned after construction, potentials with an explicit sigma different from the contact distance
    out.append(dict(name='cost[r2,N2,group-assign]', fn='cost_step', args=dict(rank=2, N=2, closures={'*': 'PercusYevick'}, flags={'*': True}, potentials={'*': {'kind': 'HardSphere', 'high': 'sym'}},
                                                                             group_assign=True, diam={'A': 1, 'B': 2}, claims=['B', 'C']), query_timeout_ms=120000))
    out.append(dict(name='cost[r2,N2,group-assign-soft]', fn='cost_step', args=dict(rank=2, N=2, closures={'*': 'HyperNettedChain'}, flags={'*': False}, potentials={'*': {'kind': 'LennardJones'}},
                                                                                  group_assign=True, diam={'A': 1, 'B': 2}, claims=['B', 'C']), query_timeout_ms=120000))
    out.append(dict(name='cost[r2,N2,kT-reassigned]', fn='cost_step', args=dict(rank=2, N=2, closures={'AA': 'PercusYevick', 'AB': 'HyperNettedChain', 'BB': 'MeanSphericalApproximation'}, flags={'BB': True},
                                                                               kT_reassign=True, claims=['B', 'C']), query_timeout_ms=120000))
    out.append(dict(name='cost[r2,N2,explicit-potential-sigma]', fn='cost_step', args=dict(rank=2, N=2, closures={'AA': 'PercusYevick', 'AB': 'HyperNettedChain', 'BB': 'MeanSphericalApproximation'},
                                                                                          flags={'AA': True, 'AB': True, 'BB': True}, potentials={p: {'kind': 'LennardJones'} for p in ('AA', 'AB', 'BB')},
                                                                                          diam={'A': 2, 'B': 2}, psigma={'AA': 1, 'AB': 1, 'BB': 1}, claims=['B', 'C']), query_timeout_ms=120000))
    out.append(dict(name='cost[r1,N3,domain-from-dk]', fn='cost_step', args=dict(rank=1, N=3, closures={'AA': 'HyperNettedChain'}, flags={'AA': True}, domain_from='dk'), query_timeout_ms=120000))
    out.append(dict(name='cost[r2,N2,domain-from-dk]', fn='cost_step', args=dict(rank=2, N=2, closures={'AA': 'PercusYevick', 'AB': 'HyperNettedChain', 'BB': 'MeanSphericalApproximation'}, flags={'AB': True},
                                                                               domain_from='dk'), query_timeout_ms=120000))
    for rank, N in ((1, 2), (1, 3), (2, 2)):
        for via in ('PRISM.solve', 'System.solve'):
            out.append(dict(name='solve[r%d,N%d,%s]' % (rank, N, via), fn='solve_step', args=dict(rank=rank, N=N, via=via), query_timeout_ms=240000, timeout=1500))
    return out


def cost_step(E, rank, N, closures, flags, claims=('A', 'B', 'C'), **bk):
    bk.setdefault('reassign', not bk.get('group_assign'))
    B = build(E, rank, N, closures=closures, flags=flags, **bk)
    P = B.S.createPRISM()
    rec = record_closures(P, B.types)
    x = E.arr('x', (N * rank * rank,), default=0.15)
    x_snap = [x[i] for i in range(len(x))]
    y = P.cost(x)
    E.reachable('cost')
    claim_cost(E, B, P, x, y, rec, claims=tuple(claims))
    E.claim_true('x-unmodified', all((x[i] is x_snap[i]) if E.sym else (x[i] == x_snap[i]) for i in range(len(x))))
    # a second evaluation at another point and then again at x: no state is carried between evaluations
    if any(v == 'Havoc' for v in B.closure.values()):
        return          # an arbitrary closure returns fresh values at every call
    y1 = [y[i] for i in range(len(y))]
    x2 = E.arr('z', (N * rank * rank,), default=-0.05)
    rec.clear()
    y2 = P.cost(x2)
    claim_cost(E, B, P, x2, y2, rec, tag='second-evaluation:', claims=('B',), canary=False)      # nothing memoised from the first point
    y3 = P.cost(x)
    for i in range(len(y1)):
        E.claim_eq('stateless[%d]' % i, y3[i], y1[i])


def create_step(E, rank, N):
    """createPRISM only (cheap at rank 3): omega scaling by the site density of every pair, each closure's potential and sigma"""
    from .prism import rho_site, key, sigma, u_values
    B = build(E, rank, N, closures={'AA': 'PercusYevick', 'AB': 'HyperNettedChain', 'AC': 'MeanSphericalApproximation', 'BB': 'HyperNettedChain', 'BC': 'PercusYevick', 'CC': 'MeanSphericalApproximation'},
              flags={'AA': True, 'BC': True, 'CC': True})
    P = B.S.createPRISM()
    E.reachable('create')
    types = B.types
    for j in range(N):
        for i, a in enumerate(types):
            for l, b in enumerate(types):
                E.claim_eq('W:omega==w*rho_site[k%d][%s%s]' % (j, a, b), P.omega.data[j, i, l], B.w[key(B, a, b)][j] * rho_site(B, a, b))
    for (a, b) in pair_list(types):
        cl = P.sys.closure[a, b]
        E.claim_eq('closure.sigma[%s%s]' % (a, b), cl.sigma, sigma(B, a, b))
        uo = u_values(E, B, P, a, b)
        for i in range(N):
            E.claim_eq('u/kT[%s%s][%d]' % (a, b, i), cl.potential[i], uo[i] / B.kT)
    E.claim('canary', E.eq(P.omega.data[0, 0, 1], B.w['AB'][0] * B.rho['A']), canary=True)


def matrix_step(E, rank, N):
    """(A) for an ARBITRARY C(k): closures are arbitrary and (in symbolic mode) the forward transform of directCorr
    is replaced, on the Domain instance inside the PRISM object, by fresh symmetric symbols."""
    from .prism import rho_site, rho_pair, key
    from .common import mm
    B = build(E, rank, N, closures={p: 'Havoc' for p in ('AA', 'AB', 'AC', 'BB', 'BC', 'CC')}, flags={})
    P = B.S.createPRISM()
    types = B.types; n = rank
    if E.sym:
        dom = P.sys.domain
        real_to_real = dom.MatrixArray_to_real

        def havoc_to_fourier(marray):
            for i in range(n):
                for j in range(i, n):
                    col = E.arr('C%d%d' % (i, j), (N,), default=0.1)
                    marray.data[:, i, j] = col; marray.data[:, j, i] = col
            marray.space = Space.Fourier
        dom.MatrixArray_to_fourier = havoc_to_fourier
    x = E.arr('x', (N * n * n,), default=0.15)
    P.cost(x)
    E.reachable('matrix')
    for j in range(N):
        W = [[B.w[key(B, a, b)][j] * rho_site(B, a, b) for b in types] for a in types]
        C = [[P.directCorr.data[j, ia, ib] for ib in range(n)] for ia in range(n)]
        H = [[P.totalCorr.data[j, ia, ib] * rho_pair(B, types[ia], types[ib]) for ib in range(n)] for ia in range(n)]
        WH = [[W[i][l] + H[i][l] for l in range(n)] for i in range(n)]
        R = mm(mm(W, C), WH)
        for i in range(n):
            for l in range(n):
                E.claim_eq('A:H=WC(W+H)[k%d][%d,%d]' % (j, i, l), H[i][l], R[i][l])
                if i < l:
                    E.claim_eq('A:totalCorr-symmetric[k%d][%d,%d]' % (j, i, l), P.totalCorr.data[j, i, l], P.totalCorr.data[j, l, i])
        if j == 0:
            Rt = mm(mm(C, W), WH)
            E.claim('A:canary-transposed', E.eq(H[0][1], Rt[0][1]), canary=True)


# ----------------------------------------------------------------------------- solve with a nondeterministic root finder

class _Result(dict):
    __getattr__ = dict.get


STUB_LOG = {}


def root_stub(fun, x0, method=None, options=None, **kw):
    """scipy.optimize.root replaced by: evaluate fun at the guess, then at one arbitrary point, return that point."""
    E = STUB_LOG['E']
    STUB_LOG['calls'] = STUB_LOG.get('calls', 0) + 1
    STUB_LOG['args'] = dict(x0=x0, method=method, options=options, kw=kw)
    fun(x0)
    x1 = E.arr('xs', (len(x0),), default=0.1)
    f1 = fun(x1)
    STUB_LOG['x1'] = x1
    return _Result(x=x1, fun=f1, success=True, message='stub')


def solve_step(E, rank, N, via):
    cls = {'AA': 'PercusYevick', 'AB': 'HyperNettedChain', 'BB': 'PercusYevick'}
    B = build(E, rank, N, closures=cls, flags={'AA': True})
    STUB_LOG.clear(); STUB_LOG['E'] = E
    n = rank
    guess = E.arr('g', (N * n * n,), default=0.0)
    opts = {'disp': False, 'maxiter': 200}
    if via == 'PRISM.solve':
        P = B.S.createPRISM()
        res = P.solve(guess=guess, method='krylov', options=opts)
    else:
        P = B.S.solve(guess=guess, method='krylov', options=opts)
        res = P.minimize_result
    E.reachable('solve')
    if E.sym:
        E.claim_true('root-called-once', STUB_LOG.get('calls') == 1)
        a = STUB_LOG['args']
        E.claim_true('guess-method-options-passed-through', a['x0'] is guess and a['method'] == 'krylov' and a['options'] is opts and not a['kw'])
        xs = STUB_LOG['x1']
    else:
        xs = res.x
    E.claim_true('result-stored', P.minimize_result is res)
    E.claim_true('totalCorr-in-real-space', P.totalCorr.space == Space.Real)
    E.claim_true('directCorr-omega-in-fourier-space', P.directCorr.space == Space.Fourier and P.omega.space == Space.Fourier)
    # reference: a fresh PRISM object evaluated once at the returned root
    P2 = B.S.createPRISM()
    rec = record_closures(P2, B.types)
    y2 = P2.cost(xs)
    claim_cost(E, B, P2, xs, y2, rec, tag='ref:', canary=False)
    for i in range(len(y2)):
        E.claim_eq('fun==cost(x)[%d]' % i, res.fun[i], y2[i])
    inter = [v for v in (P2.totalCorr.data[idx] for idx in _np.ndindex(*P2.totalCorr.data.shape)) if hasattr(v, 'n')]
    for ia in range(n):
        for ib in range(n):
            h = oracle_real(E, B.dr, N, [P2.totalCorr.data[j, min(ia, ib), max(ia, ib)] for j in range(N)])
            for i in range(N):
                E.claim_eq('totalCorr(r)==FT^-1(H(x))[%d,%d][%d]' % (ia, ib, i), P.totalCorr.data[i, ia, ib], h[i], abstract=inter)
            for j in range(N):
                E.claim_eq('directCorr==C(x)[%d,%d][%d]' % (ia, ib, j), P.directCorr.data[j, ia, ib], P2.directCorr.data[j, ia, ib])
                E.claim_eq('omega-unchanged[%d,%d][%d]' % (ia, ib, j), P.omega.data[j, ia, ib], P2.omega.data[j, ia, ib])
    E.claim('canary', E.eq(res.x[0], guess[0]), canary=True)


def differentials(seed):
    """trusted-base validation of the root-stub contract on the real scipy solver (concrete runs)."""
    import warnings
    out = []
    worst = 0.0; ok = True
    with warnings.catch_warnings():
        warnings.simplefilter('ignore')
        for method in ('krylov', 'hybr', 'anderson'):
            S = pyPRISM.System(['A'], kT=1.0); S.domain = pyPRISM.Domain(length=64, dr=0.1)
            S.density['A'] = 0.5; S.diameter['A'] = 1.0
            S.potential['A', 'A'] = pyPRISM.potential.HardSphere(); S.closure['A', 'A'] = pyPRISM.closure.PercusYevick(); S.omega['A', 'A'] = pyPRISM.omega.SingleSite()
            P = S.createPRISM()
            calls = []
            orig = P.cost
            P.cost = lambda x, orig=orig: (calls.append(_np.copy(x)), orig(x))[1]
            res = P.solve(method=method, options={'disp': False})
            P2 = S.createPRISM(); y2 = P2.cost(res.x)
            ok = ok and bool(res.success) and _np.array_equal(calls[-1], res.x)
            worst = max(worst, float(_np.max(_np.abs(res.fun - y2))))
    out.append(('scipy root (krylov, hybr, anderson): result.x is the last evaluated point and result.fun = cost(result.x)', ok and worst == 0.0, worst))
    return out
