"""C14 - PairTable / ValueTable as keyed maps with isolated values: CrossHair (z3-backed symbolic execution of Python).

For every operation sequence of the enumerated shape (the op codes are the finite part, enumerated by the driver) a
PEP-316 harness is generated into /verif/.gen/; its arguments - key masks, single keys, query keys, values (lists of
ints) - are symbolic; the real PairTable/ValueTable is driven next to a 20-line dict model and the post-condition says
that every observation (reads in both orders, check(), the four iterpairs variants, copy isolation under mutation,
apply in/out of place) agrees. `crosshair check` either confirms the post-condition over all paths or returns a call
that falsifies it, which is re-executed outside CrossHair before it is reported."""
import os, sys, json, time, re, subprocess, hashlib, itertools, glob, random

VERIF = os.path.dirname(os.path.dirname(os.path.abspath(__file__)))
REPO = os.environ.get('VERIF_REPO', '/repo')
OUT = os.environ.get('VERIF_OUT', VERIF)
GEN = os.path.join(os.environ.get('VERIF_OUT', VERIF), '.gen')
PROP = 'C14'

PT_OPS = ['setL', 'setS', 'setT', 'unset', 'applyI', 'applyO', 'mut', 'iter', 'check']
VT_OPS = ['vsetL', 'vsetS', 'vsetLL', 'vunset', 'vcheck', 'viter']

TEMPLATE = '''import warnings; warnings.simplefilter('ignore')
from typing import List
from pyPRISM.core.PairTable import PairTable
from pyPRISM.core.ValueTable import ValueTable
TYPES = %(types)r
N = len(TYPES)
SEQ = %(seq)r


def _sel(mask):
    return [t for i, t in enumerate(TYPES) if (mask >> i) & 1]


def _f(v):
    return None if v is None else v + [7]


def _model_iter(ref, full, diagonal):
    out = []
    for i in range(N):
        for j in range(N):
            if full or (i <= j if diagonal else i < j):
                out.append(((i, j), (TYPES[i], TYPES[j]), ref[(min(i, j), max(i, j))]))
    return out


def _same_iter(PT, ref):
    for full in (False, True):
        for diagonal in (True, False):
            got = [(ij, t, v) for ij, t, v in PT.iterpairs(full=full, diagonal=diagonal)]
            if got != _model_iter(ref, full, diagonal):
                return False
    return True


def _agree(PT, ref):
    for i in range(N):
        for j in range(N):
            if PT[TYPES[i], TYPES[j]] != ref[(min(i, j), max(i, j))]:
                return False
    try:
        PT.check(); raised = False
    except ValueError:
        raised = True
    if raised != any(v is None for v in ref.values()):
        return False
    return _same_iter(PT, ref)


def step(%(params)s) -> bool:
    """
    pre: %(pre)s
    post: _
    """
    PT = PairTable(TYPES, 'x')
    ref = {(i, j): None for i in range(N) for j in range(i, N)}
    callers = []
%(body)s
    if not _agree(PT, ref):
        return False
    # copy isolation: mutate the value stored for each pair in turn; every other pair and every caller object is unaffected
    for q1 in range(N):
        for q2 in range(q1, N):
            got = PT[TYPES[q1], TYPES[q2]]
            if isinstance(got, list):
                got.append(99 + q1 * N + q2)
                ref[(q1, q2)] = ref[(q1, q2)] + [99 + q1 * N + q2]
                if PT[TYPES[q2], TYPES[q1]] != ref[(q1, q2)]:
                    return False
    if not _agree(PT, ref):
        return False
    for obj, snap in callers:
        if obj != snap:
            return False
    return True
'''

VT_TEMPLATE = '''import warnings; warnings.simplefilter('ignore')
from typing import List
from pyPRISM.core.ValueTable import ValueTable
TYPES = %(types)r
N = len(TYPES)


def _sel(mask):
    return [t for i, t in enumerate(TYPES) if (mask >> i) & 1]


def _agree(VT, ref):
    for i in range(N):
        if VT[TYPES[i]] != ref[i]:
            return False
    try:
        VT.check(); raised = False
    except ValueError:
        raised = True
    if raised != any(v is None for v in ref):
        return False
    return [(i, t, v) for i, t, v in VT] == [(i, TYPES[i], ref[i]) for i in range(N)]


def step(%(params)s) -> bool:
    """
    pre: %(pre)s
    post: _
    """
    VT = ValueTable(TYPES, 'x')
    ref = [None] * N
%(body)s
    return _agree(VT, ref)
'''


def gen_pt(types, seq):
    n = len(types); full = (1 << n) - 1
    params = []; pre = []
    body = []
    for k, op in enumerate(seq):
        if op in ('setL', 'setT'):
            params += ['m1_%d: int' % k, 'm2_%d: int' % k, 'x%d: int' % k, 'e%d: int' % k]
            pre += ['1 <= m1_%d <= %d' % (k, full), '1 <= m2_%d <= %d' % (k, full), '0 <= e%d <= 1' % k]
            body += ['    v%d = [] if e%d else [x%d]' % (k, k, k)]
            wrap = 'tuple' if op == 'setT' else 'list'
            body += ['    k1, k2 = _sel(m1_%d), _sel(m2_%d)' % (k, k), '    callers.append((v%d, list(v%d)))' % (k, k), '    PT[%s(k1), %s(k2)] = v%d' % (wrap, wrap, k),
                     '    for a_ in k1:', '        for b_ in k2:', '            i_, j_ = sorted((TYPES.index(a_), TYPES.index(b_)))', '            ref[(i_, j_)] = list(v%d)' % k]
        elif op == 'setS':
            params += ['a%d: int' % k, 'b%d: int' % k, 'x%d: int' % k, 'e%d: int' % k]
            pre += ['0 <= a%d < %d' % (k, n), '0 <= b%d < %d' % (k, n), '0 <= e%d <= 1' % k]
            body += ['    v%d = [] if e%d else [x%d]' % (k, k, k)]
            body += ['    callers.append((v%d, list(v%d)))' % (k, k), '    PT[TYPES[a%d], TYPES[b%d]] = v%d' % (k, k, k), '    ref[(min(a%d, b%d), max(a%d, b%d))] = list(v%d)' % (k, k, k, k, k)]
        elif op == 'unset':
            params += ['x%d: int' % k, 'e%d: int' % k]; pre += ['0 <= e%d <= 1' % k]
            body += ['    v%d = [] if e%d else [x%d]' % (k, k, k)]
            body += ['    callers.append((v%d, list(v%d)))' % (k, k), '    PT.setUnset(v%d)' % k, '    for key_ in ref:', '        if ref[key_] is None:', '            ref[key_] = list(v%d)' % k]
        elif op == 'applyI':
            body += ['    r_ = PT.apply(_f, inplace=True)', '    if r_ is not PT:', '        return False', '    for key_ in ref:', '        ref[key_] = _f(ref[key_])']
        elif op == 'applyO':
            body += ['    before_ = {(i, j): PT[TYPES[i], TYPES[j]] for i in range(N) for j in range(N)}', '    P2 = PT.apply(_f, inplace=False)',
                     '    if P2 is PT or not _agree(PT, ref):', '        return False',
                     '    if any(PT[TYPES[i], TYPES[j]] is not before_[(i, j)] for i in range(N) for j in range(N)):', '        return False',
                     '    if not _agree(P2, {key_: _f(val_) for key_, val_ in ref.items()}):', '        return False']
        elif op == 'mut':
            params += ['ma%d: int' % k]; pre += ['0 <= ma%d < %d' % (k, n)]
            body += ['    mb%d = %d - 1' % (k, n)]
            body += ['    g_ = PT[TYPES[ma%d], TYPES[mb%d]]' % (k, k), '    if isinstance(g_, list):', '        g_.append(5)',
                     '        key_ = (min(ma%d, mb%d), max(ma%d, mb%d))' % (k, k, k, k), '        ref[key_] = ref[key_] + [5]']
        elif op == 'iter':
            params += ['fl%d: int' % k]; pre += ['0 <= fl%d < 4' % k]
            body += ['    got_ = [(ij, t, v) for ij, t, v in PT.iterpairs(full=bool(fl%d & 1), diagonal=bool(fl%d & 2))]' % (k, k),
                     '    if got_ != _model_iter(ref, bool(fl%d & 1), bool(fl%d & 2)):' % (k, k), '        return False']
        elif op == 'check':
            body += ['    try:', '        PT.check(); r_ = False', '    except ValueError:', '        r_ = True', '    if r_ != any(v is None for v in ref.values()):', '        return False']
        else:
            raise KeyError(op)
    return TEMPLATE % dict(types=types, seq=seq, params=', '.join(params), pre=' and '.join(pre), body='\n'.join(body))


def gen_vt(types, seq):
    n = len(types); full = (1 << n) - 1
    params = []; pre = []
    body = []
    for k, op in enumerate(seq):
        if op == 'vsetL':
            params += ['m%d: int' % k, 'x%d: int' % k]; pre += ['1 <= m%d <= %d' % (k, full)]
            body += ['    for t_ in _sel(m%d):' % k, '        ref[TYPES.index(t_)] = x%d' % k, '    VT[_sel(m%d)] = x%d' % (k, k)]
        elif op == 'vsetLL':
            # a list VALUE whose length equals the number of keys is stored whole under every key (not distributed)
            params += ['m%d: int' % k, 'x%d: int' % k]; pre += ['1 <= m%d <= %d' % (k, full)]
            body += ['    keys_ = _sel(m%d)' % k, '    val_ = [x%d + i_ for i_ in range(len(keys_))]' % k, '    VT[keys_] = val_', '    for t_ in keys_:', '        ref[TYPES.index(t_)] = val_']
        elif op == 'vsetS':
            params += ['a%d: int' % k, 'x%d: int' % k]; pre += ['0 <= a%d < %d' % (k, n)]
            body += ['    VT[TYPES[a%d]] = x%d' % (k, k), '    ref[a%d] = x%d' % (k, k)]
        elif op == 'vunset':
            params += ['x%d: int' % k]
            body += ['    VT.setUnset(x%d)' % k, '    ref = [x%d if r_ is None else r_ for r_ in ref]' % k]
        elif op == 'vcheck':
            body += ['    try:', '        VT.check(); r_ = False', '    except ValueError:', '        r_ = True', '    if r_ != any(v is None for v in ref):', '        return False']
        elif op == 'viter':
            body += ['    if [(i, t, v) for i, t, v in VT] != [(i, TYPES[i], ref[i]) for i in range(N)]:', '        return False']
        else:
            raise KeyError(op)
    if not params:
        params = ['dummy: int']; pre = ['dummy == 0']
    return VT_TEMPLATE % dict(types=types, params=', '.join(params), pre=' and '.join(pre) if pre else 'True', body='\n'.join(body))


def instances(tier):
    out = []
    T = {1: ['A'], 2: ['A', 'B'], 3: ['A', 'B', 'C'], 4: ['A', 'B', 'C', 'D']}
    mut = ['setL', 'setS', 'unset', 'applyI', 'applyO', 'mut', 'iter', 'check'] + (['setT'] if tier == 'thorough' else [])
    for n in (1, 2):
        for op in PT_OPS:
            out.append(dict(kind='pt', n=n, seq=[op], to=240))
    for a in mut:
        for b in mut:
            out.append(dict(kind='pt', n=2, seq=[a, b], to=360))
    for seq in (['setL'], ['setL', 'unset'], ['setL', 'mut'], ['iter', 'unset'], ['unset', 'mut'], ['setL', 'applyO'], ['check', 'setL']) + ((['setS', 'setL'],) if tier == 'thorough' else ()):
        out.append(dict(kind='pt', n=3, seq=seq, to=600))
    for seq in (['setL', 'setL', 'mut'], ['iter', 'iter', 'unset'], ['setS', 'unset', 'setL'], ['unset', 'setL', 'mut'], ['iter', 'check', 'iter'], ['applyI', 'setL', 'applyO']):
        out.append(dict(kind='pt', n=2, seq=seq, to=600))
    if tier == 'thorough':
        for a in mut:
            for b in mut:
                if a in ('setL', 'setT') and b in ('setL', 'setT'):
                    continue            # 49 x 49 mask combinations: only the plain pair below, with a long budget
                out.append(dict(kind='pt', n=3, seq=[a, b], to=900))
        out.append(dict(kind='pt', n=3, seq=['setL', 'setL'], to=1500))
        for seq in (['setL'], ['setL', 'unset'], ['setS', 'setS'], ['setL', 'mut']):
            out.append(dict(kind='pt', n=4, seq=seq, to=600))
    for n in (1, 2, 3, 4):
        for a in VT_OPS:
            out.append(dict(kind='vt', n=n, seq=[a], to=240))
    for a in VT_OPS:
        for b in VT_OPS:
            for n in ((2, 3) if tier == 'quick' else (2, 3, 4)):
                out.append(dict(kind='vt', n=n, seq=[a, b], to=300))
    for seq in (['vsetS', 'vsetS', 'vcheck'], ['vsetL', 'vunset', 'vsetS'], ['vsetS', 'vunset', 'vcheck'], ['vunset', 'vsetL', 'viter']):
        out.append(dict(kind='vt', n=3, seq=seq, to=400))
    for i in out:
        i['types'] = T[i['n']]
        i['name'] = '%s[n%d,%s]' % (i['kind'], i['n'], '>'.join(i['seq']))
    return out


def _py():
    return sys.executable


def run_one(inst):
    os.makedirs(GEN, exist_ok=True)
    src = gen_pt(inst['types'], inst['seq']) if inst['kind'] == 'pt' else gen_vt(inst['types'], inst['seq'])
    h = hashlib.sha256(src.encode()).hexdigest()[:10]
    path = os.path.join(GEN, 'c14_%s.py' % h)
    with open(path, 'w') as f:
        f.write(src)
    env = dict(os.environ); env['PYTHONPATH'] = REPO + os.pathsep + env.get('PYTHONPATH', ''); env['PYTHONWARNINGS'] = 'ignore'
    t0 = time.time()
    cmd = [_py(), '-m', 'crosshair', 'check', '--report_all', '--per_condition_timeout', str(inst['to']), '--per_path_timeout', str(max(10, inst['to'] // 4)), path]
    try:
        p = subprocess.run(cmd, capture_output=True, text=True, timeout=inst['to'] * 2 + 60, env=env, cwd=GEN)
        out = (p.stdout or '') + (p.stderr or '')
    except subprocess.TimeoutExpired:
        out = 'TIMEOUT'
    dt = time.time() - t0
    res = dict(name=inst['name'], file=path, wall_s=round(dt, 2), verdict='inconclusive', detail=out[-600:])
    if 'Confirmed over all paths' in out:
        res['verdict'] = 'holds'
    m = re.search(r'error: (.*?) when calling (step\([^)]*\))', out, re.S)
    if m:
        call = m.group(2).strip().splitlines()[0]
        res['call'] = call
        rep = replay_call(src, call)
        if rep['failed']:
            res['verdict'] = 'violation'; res['replay_detail'] = rep
        else:
            res['verdict'] = 'cex-not-reproduced'
    return res, src


def replay_call(src, call):
    """re-execute the falsifying call outside CrossHair, on the real classes"""
    code = src + '\nimport json\ntry:\n    r = %s\n    print(json.dumps(dict(failed=(r is not True), result=repr(r))))\nexcept Exception as e:\n    print(json.dumps(dict(failed=True, result="%%s: %%s" %% (type(e).__name__, e))))\n' % call
    env = dict(os.environ); env['PYTHONPATH'] = REPO; env['PYTHONWARNINGS'] = 'ignore'
    p = subprocess.run(['/venv/bin/python' if os.path.exists('/venv/bin/python') else _py(), '-c', code], capture_output=True, text=True, env=env, timeout=120)
    try:
        return json.loads(p.stdout.strip().splitlines()[-1])
    except Exception:
        return dict(failed=False, result='replay did not run: %s' % (p.stderr or '')[-300:])


def cmd_replay(path, as_json=False):
    spec = json.load(open(path))
    rep = replay_call(spec['source'], spec['call'])
    print('replay %s: %s -> %s' % (path, spec['call'], rep['result']))
    print('REPRODUCED' if rep['failed'] else 'not reproduced')
    return 1 if rep['failed'] else 0


def driver(tier, only, jobs, seed):
    from concurrent.futures import ThreadPoolExecutor
    t0 = time.time()
    insts = instances(tier)
    if only:
        insts = [i for i in insts if only in i['name']]
    for old in glob.glob(os.path.join(OUT, 'replays', 'C14-*.json')) + glob.glob(os.path.join(GEN, 'c14_*.py')):
        os.unlink(old)
    # reachability twin (vacuity guard): a harness whose post-condition is False must be refuted
    twin_src = gen_pt(['A', 'B'], ['setL']).replace('    if not _agree(PT, ref):\n        return False\n    # copy', '    return False\n    # copy', 1)
    os.makedirs(GEN, exist_ok=True)
    with ThreadPoolExecutor(max_workers=jobs) as ex:
        results = list(ex.map(run_one, insts))
    twin = dict(types=['A', 'B'], seq=['setL'], kind='pt', to=40, name='twin')
    tpath = os.path.join(GEN, 'c14_twin.py'); open(tpath, 'w').write(twin_src)
    env = dict(os.environ); env['PYTHONPATH'] = REPO; env['PYTHONWARNINGS'] = 'ignore'
    p = subprocess.run([_py(), '-m', 'crosshair', 'check', '--report_all', '--per_condition_timeout', '40', tpath], capture_output=True, text=True, env=env, cwd=GEN, timeout=200)
    twin_ok = 'error:' in ((p.stdout or '') + (p.stderr or ''))
    violations = []; holds = 0; inconc = []; herr = []
    os.makedirs(os.path.join(OUT, 'replays'), exist_ok=True)
    samples = []
    for (res, src), inst in zip(results, insts):
        if res['verdict'] == 'holds':
            holds += 1
        elif res['verdict'] == 'violation':
            rp = os.path.join(OUT, 'replays', 'C14-%s-%s.json' % (re.sub(r'[^A-Za-z0-9,>\[\]]', '_', inst['name']), hashlib.sha256(res['call'].encode()).hexdigest()[:8]))
            json.dump(dict(property='C14', instance=inst['name'], call=res['call'], source=src, result=res['replay_detail']['result']), open(rp, 'w'), indent=1)
            violations.append((inst['name'], rp, res['call']))
        elif res['verdict'] == 'cex-not-reproduced':
            herr.append((inst['name'], 'CrossHair counterexample did not reproduce: %s' % res.get('call')))
        else:
            inconc.append((inst['name'], res['detail'][-200:].replace('\n', ' ')))
        if len(samples) < 5:
            samples.append(dict(instance=inst['name'], verdict=res['verdict'], wall_s=res['wall_s'], call=res.get('call')))
    if not twin_ok:
        herr.append(('twin', 'reachability twin (post: False) was not refuted'))
    funcs = []
    try:
        import inspect, warnings
        with warnings.catch_warnings():
            warnings.simplefilter('ignore')
            sys.path.insert(0, REPO)
            from pyPRISM.core import PairTable as _PT, ValueTable as _VT, Table as _T
        for mod, cls in ((_PT, 'PairTable'), (_VT, 'ValueTable'), (_T, 'Table')):
            for nm, fn in inspect.getmembers(getattr(mod, cls), inspect.isfunction):
                src = inspect.getsource(fn)
                funcs.append(dict(function='pyPRISM/core/%s.py:%s.%s' % (cls, cls, nm), sha256=hashlib.sha256(src.encode()).hexdigest()[:16]))
    except Exception as e:
        funcs = [dict(function='(could not enumerate: %s)' % e, sha256='')]
    wall = time.time() - t0
    ev = dict(property_id='C14', tier=tier, seed=seed, level='model_checking', wall_s=round(wall, 2), violations=len(violations),
              coverage=dict(states=max(len(insts), 1), transitions=max(sum(len(i['seq']) for i in insts), 1), traces_validated_against_impl=len(violations) + (1 if twin_ok else 0),
                            samples=samples or [dict(note='none')], obligations=len(insts), discharged=holds, inconclusive=len(inconc),
                            instance_names=[i['name'] for i in insts], reachability_twin_refuted=twin_ok, functions_encoded=funcs,
                            bounds=dict(types='1-3 (4 thorough)', depth='operation sequences of length 1-3 (op codes enumerated by the driver; keys, masks, query keys, values symbolic)', values='[] or [x] with x a symbolic int (PairTable), symbolic ints (ValueTable)'),
                            solver=dict(engine='crosshair-tool (z3)', per_condition_timeouts=sorted(set(i['to'] for i in insts))),
                            slowest_instances=sorted([(r['wall_s'], r['name']) for r, _ in results], reverse=True)[:5],
                            violations=[dict(instance=n, replay=rp, call=c) for n, rp, c in violations],
                            errors=[dict(kind='harness', where=a, what=b) for a, b in herr] + [dict(kind='inconclusive', where=a, what=b) for a, b in inconc], exhaustive=False),
              assumptions=['CrossHair explores the paths of the harness + the real PairTable/ValueTable/Table code symbolically; "Confirmed over all paths" is its verdict within the per-condition timeout',
                           'copy isolation is demanded of PairTable only (ValueTable assigns by reference; the statement\'s ValueTable clause lists assignment/setUnset/check/iteration)',
                           'op-code sequences are enumerated (finite); all keys/values within them are symbolic'])
    os.makedirs(os.path.join(OUT, 'evidence'), exist_ok=True)
    json.dump(ev, open(os.path.join(OUT, 'evidence', 'C14.json'), 'w'), indent=1)
    print('C14 tier=%s instances=%d confirmed=%d inconclusive=%d violations=%d wall=%.1fs' % (tier, len(insts), holds, len(inconc), len(violations), wall))
    for n, rp, c in violations:
        print('VIOLATION property=C14 replay=%s' % rp)
        print('  obligation: %s  call: %s' % (n, c))
    if violations:
        return 1
    if herr:
        for a, b in herr[:10]:
            print('HARNESS-ERROR %s: %s' % (a, b))
        return 3
    if inconc:
        for a, b in inconc[:10]:
            print('INCONCLUSIVE %s: %s' % (a, b))
        return 2
    return 0
