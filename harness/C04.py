"""C04 - invariance of the self-consistency map under meaningless reformulations of the input:
type re-ordering, species splitting (monatomic A/A', symmetric diblock halves), energy scaling."""
import numpy as _np, itertools
import pyPRISM
from pyPRISM.core.Space import Space
from .prism import build, pair_list, grid_r, ckey, havoc_fourier
from .common import lj, hclj

PROP = 'C04'
TIMEOUT = {'quick': 900, 'thorough': 3000}
BOUNDS = dict(perm='rank 2 (swap; quick and thorough), rank 3 all 5 non-trivial orders (thorough only), N=2, different closure / arbitrary potential / arbitrary omega per pair',
              split='monatomic fluid -> A/A\' with arbitrary split ratio (NoIntra and InterMolecular cross omega); homopolymer -> symmetric diblock halves with exact block omegas; N=2, closures PY/HNC/MSA',
              scale='every shipped potential, every energy parameter (epsilon, high_value) and kT multiplied by an arbitrary lambda>0')
OUTSIDE = ['trial vectors that are not symmetric in the pair indices (cost reads the upper triangle; all zeros are symmetric)', 'which zero of the map scipy converges to (the maps are proven equivariant/equal for EVERY trial vector, so their zero sets correspond)', 'N>2 for permutation/splitting; rank>3', 'rounding error']
ASSUMPTIONS = ['det(I - Omega C) != 0 for both formulations', 'block omegas follow the pyPRISM convention omega_ab = S_ab/(N_a+N_b) off the diagonal, S_aa/N_a on it']

CL3 = {'AA': 'PercusYevick', 'AB': 'HyperNettedChain', 'AC': 'MeanSphericalApproximation', 'BB': 'HyperNettedChain', 'BC': 'PercusYevick', 'CC': 'MeanSphericalApproximation'}
FL3 = {'AA': True, 'BC': True, 'CC': True}


def instances(tier):
    out = []
    out.append(dict(name='perm[r2,BA]', fn='perm_step', args=dict(rank=2, order=['B', 'A']), query_timeout_ms=120000))
    out.append(dict(name='rename[int-labels]', fn='rename_int', args={}))
    out.append(dict(name='perm[r2,BA,group-assign]', fn='perm_step', args=dict(rank=2, order=['B', 'A'], group=True), query_timeout_ms=120000))
    orders3 = [list(p) for p in itertools.permutations(['A', 'B', 'C'])][1:]
    for o in orders3:
        out.append(dict(name='perm-create[r3,%s]' % ''.join(o), fn='perm_create_step', args=dict(order=o)))
    for o in (orders3 if tier == 'thorough' else []):
        out.append(dict(name='perm[r3,%s]' % ''.join(o), fn='perm_step', args=dict(rank=3, order=o), query_timeout_ms=300000, timeout=3000))
    for cl, fl in (('PercusYevick', False), ('HyperNettedChain', True), ('MeanSphericalApproximation', True)):
        for cross in ('NoIntra', 'InterMolecular'):
            out.append(dict(name='split-mono[%s,%s]' % (cl, cross), fn='split_step', args=dict(kind='mono', closure=cl, flag=fl, cross=cross), query_timeout_ms=120000))
        out.append(dict(name='split-block[%s]' % cl, fn='split_step', args=dict(kind='block', closure=cl, flag=fl, cross=None), query_timeout_ms=120000))
    for pot in ('HardSphere', 'Exponential', 'HardCoreLennardJones', 'LennardJones', 'LennardJonesCutShift', 'WeeksChandlerAndersen'):
        out.append(dict(name='scale[%s]' % pot, fn='scale_step', args=dict(pot=pot)))
    out.append(dict(name='scale[pmf]', fn='scale_pmf', args={}))
    return out


def perm_create_step(E, order):
    """createPRISM only (cheap at rank 3): omega scaling and every closure's potential/sigma are the same for every
    declaration order of the types (densities/diameters are assigned in declaration order)"""
    N = 2
    base = ['A', 'B', 'C']
    B1 = build(E, 3, N, closures=CL3, flags=FL3, types=base, diam={'A': 1, 'B': 2, 'C': 2})
    B2 = build(E, 3, N, closures=CL3, flags=FL3, types=list(order), diam={'A': 1, 'B': 2, 'C': 2})
    P1 = B1.S.createPRISM(); P2 = B2.S.createPRISM()
    E.reachable('perm-create')
    for ia, a in enumerate(order):
        for ib, b in enumerate(order):
            ja, jb = base.index(a), base.index(b)
            for j in range(N):
                E.claim_eq('omega[%s%s][k%d]' % (a, b, j), P2.omega.data[j, ia, ib], P1.omega.data[j, ja, jb])
            E.claim_eq('pair-density[%s%s]' % (a, b), P2.sys.density.pair.data[0, ia, ib], P1.sys.density.pair.data[0, ja, jb])
            E.claim_eq('site-density[%s%s]' % (a, b), P2.sys.density.site.data[0, ia, ib], P1.sys.density.site.data[0, ja, jb])
            E.claim_eq('closure.sigma[%s%s]' % (a, b), P2.sys.closure[a, b].sigma, P1.sys.closure[a, b].sigma)
            for i in range(N):
                E.claim_eq('u/kT[%s%s][%d]' % (a, b, i), P2.sys.closure[a, b].potential[i], P1.sys.closure[a, b].potential[i])
    E.claim_eq('total-density', P2.sys.density.total, P1.sys.density.total)
    E.claim('canary', E.eq(P2.omega.data[0, 0, 0], P1.omega.data[0, 0, 0]), canary=(order[0] != 'A'))


def rename_int(E):
    """renaming: the same system with integer type labels in non-natural order ([1,0] with 1=A, 0=B) is wired identically, position by position and by label"""
    N = 2
    B1 = build(E, 2, N, closures={'AA': 'PercusYevick', 'AB': 'HyperNettedChain', 'BB': 'MeanSphericalApproximation'}, flags={'BB': True}, diam={'A': 1, 'B': 2})
    S1 = B1.S
    lab = {'A': 1, 'B': 0}
    S2 = pyPRISM.System([1, 0], kT=B1.kT)
    S2.domain = pyPRISM.Domain(length=N, dr=B1.dr)
    for t in ('A', 'B'):
        S2.density[lab[t]] = B1.rho[t]; S2.diameter[lab[t]] = B1.d[t]
    for a, b in (('A', 'A'), ('A', 'B'), ('B', 'B')):
        S2.potential[lab[a], lab[b]] = S1.potential[a, b]; S2.closure[lab[a], lab[b]] = S1.closure[a, b]; S2.omega[lab[a], lab[b]] = S1.omega[a, b]
    P1 = S1.createPRISM(); P2 = S2.createPRISM()
    E.reachable('rename')
    for ia, a in enumerate(('A', 'B')):
        for ib, b in enumerate(('A', 'B')):
            for j in range(N):
                E.claim_eq('omega-by-position[%s%s][k%d]' % (a, b, j), P2.omega.data[j, ia, ib], P1.omega.data[j, ia, ib])
                E.claim_eq('omega-by-label[%s%s][k%d]' % (a, b, j), P2.omega[lab[a], lab[b]][j], P1.omega[a, b][j])
            E.claim_eq('closure.sigma[%s%s]' % (a, b), P2.sys.closure[lab[a], lab[b]].sigma, P1.sys.closure[a, b].sigma)
            E.claim_eq('site-density[%s%s]' % (a, b), P2.sys.density.site[lab[a], lab[b]][0], P1.sys.density.site[a, b][0])
    x = E.arr('x', (N * 4,), default=0.15)
    for i in range(N):
        x[i * 4 + 2] = x[i * 4 + 1]
    y1 = P1.cost(x); y2 = P2.cost(x)
    for i in range(len(y1)):
        E.claim_eq('cost[%d]' % i, y2[i], y1[i])


def perm_step(E, rank, order, group=False):
    N = 2
    base = ['A', 'B', 'C'][:rank]
    cls = {p: CL3[p] for p in (ckey(a, b) for a, b in pair_list(base))}
    fls = {p: FL3.get(p, False) for p in cls}
    if group:
        kw = dict(closures={'*': 'HyperNettedChain'}, flags={'*': True}, potentials={'*': {'kind': 'HardSphere', 'high': 'sym'}}, group_assign=True)
    else:
        kw = dict(closures=cls, flags=fls)
    B1 = build(E, rank, N, types=base, diam={'A': 1, 'B': 2, 'C': 2}, **kw)
    B2 = build(E, rank, N, types=list(order), diam={'A': 1, 'B': 2, 'C': 2}, **kw)
    P1 = B1.S.createPRISM(); P2 = B2.S.createPRISM()
    n = rank
    x1 = E.arr('x', (N * n * n,), default=0.15)
    # physically meaningful trial vectors: gamma_ab = gamma_ba (every zero of the map is symmetric; cost reads the
    # upper triangle only, so equivariance is a statement about symmetric inputs)
    for i in range(N):
        for ia in range(n):
            for ib in range(ia):
                x1[i * n * n + ia * n + ib] = x1[i * n * n + ib * n + ia]
    x2 = _np.empty(N * n * n, dtype=object if E.sym else float)
    for i in range(N):
        for ia, a in enumerate(order):
            for ib, b in enumerate(order):
                x2[i * n * n + ia * n + ib] = x1[i * n * n + base.index(a) * n + base.index(b)]
    if E.sym:
        # closure stage with the real transforms (claims on directCorr / omega); matrix stage for an ARBITRARY C(k)
        # (the same fresh symbols, named by pair, in both formulations)
        P1.cost(x1); P2.cost(x2)
        Q1 = B1.S.createPRISM(); Q2 = B2.S.createPRISM()
        havoc_fourier(E, Q1); havoc_fourier(E, Q2)
        y1 = Q1.cost(x1); y2 = Q2.cost(x2)
    else:
        y1 = P1.cost(x1); y2 = P2.cost(x2)
        Q1, Q2 = P1, P2
    E.reachable('perm')
    for nm_, Q_, B_ in (('Q1', Q1, B1), ('Q2', Q2, B2)):
        E.claim_true('type-labels-kept[%s]' % nm_, all(list(getattr(Q_, w_).types) == list(B_.types) for w_ in ('totalCorr', 'directCorr', 'omega', 'GammaOut')))
    inter = []; lem = []
    if E.sym:
        inter = [v for Q in (Q1, Q2) for v in (Q.totalCorr.data[idx] for idx in _np.ndindex(*Q.totalCorr.data.shape)) if hasattr(v, 'n')]
        for ia, a in enumerate(order):
            for ib, b in enumerate(order):
                for j in range(N):
                    lem.append((Q2.totalCorr.data[j, ia, ib], Q1.totalCorr.data[j, base.index(a), base.index(b)]))   # claimed below as totalCorr[..]
                    if ia < ib:
                        for Q, nm in ((Q1, 'Q1'), (Q2, 'Q2')):
                            E.claim_eq('totalCorr-symmetric[%s][%d,%d][k%d]' % (nm, ia, ib, j), Q.totalCorr.data[j, ia, ib], Q.totalCorr.data[j, ib, ia])
                            lem.append((Q.totalCorr.data[j, ia, ib], Q.totalCorr.data[j, ib, ia]))
    for ia, a in enumerate(order):
        for ib, b in enumerate(order):
            ja, jb = base.index(a), base.index(b)
            for j in range(N):
                E.claim_eq('directCorr[%s%s][k%d]' % (a, b, j), P2.directCorr.data[j, ia, ib], P1.directCorr.data[j, ja, jb])
                E.claim_eq('omega[%s%s][k%d]' % (a, b, j), P2.omega.data[j, ia, ib], P1.omega.data[j, ja, jb])
                E.claim_eq('totalCorr[%s%s][k%d]' % (a, b, j), Q2.totalCorr.data[j, ia, ib], Q1.totalCorr.data[j, ja, jb])
                E.claim_eq('totalCorr-by-name[%s,%s][k%d]' % (a, b, j), Q2.totalCorr[a, b][j], Q1.totalCorr[a, b][j])
            for i in range(N):
                E.claim_eq('cost[%s%s][r%d]' % (a, b, i), y2[i * n * n + ia * n + ib], y1[i * n * n + ja * n + jb], abstract=inter, lemmas=lem)
    ci = [i for i in range(rank) if order[i] != base[i]][0]       # a position whose type differs between the two orders
    E.claim('canary', E.eq(P2.directCorr.data[0, ci, ci], P1.directCorr.data[0, ci, ci]), canary=True)


def split_step(E, kind, closure, flag, cross):
    N = 2
    n2 = 2
    dr = None
    pot = {'kind': 'havoc', 'name': 'X'}
    if kind == 'mono':
        rA = E.real('rhoA', pos=True, default=0.2); rB = E.real('rhoB', pos=True, default=0.35)
        B1 = build(E, 1, N, closures={'AA': closure}, flags={'AA': flag}, potentials={'AA': pot}, omegas={'AA': 'SingleSite'}, diam={'A': 1}, rho={'A': rA + rB}, prefix='')
        B2 = build(E, 2, N, closures={p: closure for p in ('AA', 'AB', 'BB')}, flags={p: flag for p in ('AA', 'AB', 'BB')}, potentials={p: pot for p in ('AA', 'AB', 'BB')},
                   omegas={'AA': 'SingleSite', 'BB': 'SingleSite', 'AB': cross}, diam={'A': 1, 'B': 1}, rho={'A': rA, 'B': rB})
    else:
        rc = E.real('rho_chain', pos=True, default=0.05); Na = E.real('Na', pos=True, default=4.0)
        Saa = E.arr('Saa', (N,), default=2.5); Sab = E.arr('Sab', (N,), default=1.5)
        w1 = [(2.0 * Saa[j] + 2.0 * Sab[j]) / (2.0 * Na) for j in range(N)]
        waa = [Saa[j] / Na for j in range(N)]
        wab = [Sab[j] / (2.0 * Na) for j in range(N)]

        def fa(vals):
            a = _np.empty(N, dtype=object if E.sym else float)
            for j in range(N):
                a[j] = vals[j]
            return (pyPRISM.omega.FromArray(a), vals)
        B1 = build(E, 1, N, closures={'AA': closure}, flags={'AA': flag}, potentials={'AA': pot}, omegas={'AA': fa(w1)}, diam={'A': 1}, rho={'A': rc * 2.0 * Na})
        B2 = build(E, 2, N, closures={p: closure for p in ('AA', 'AB', 'BB')}, flags={p: flag for p in ('AA', 'AB', 'BB')}, potentials={p: pot for p in ('AA', 'AB', 'BB')},
                   omegas={'AA': fa(waa), 'BB': fa(waa), 'AB': fa(wab)}, diam={'A': 1, 'B': 1}, rho={'A': rc * Na, 'B': rc * Na})
    P1 = B1.S.createPRISM(); P2 = B2.S.createPRISM()
    x1 = E.arr('x', (N,), default=0.15)
    x2 = _np.empty(N * n2 * n2, dtype=object if E.sym else float)
    for i in range(N):
        for k in range(n2 * n2):
            x2[i * n2 * n2 + k] = x1[i]
    y1 = P1.cost(x1); y2 = P2.cost(x2)
    E.reachable('split')
    cabs = [v for v in (P1.directCorr.data[idx] for idx in _np.ndindex(*P1.directCorr.data.shape)) if hasattr(v, 'n')]
    for ia in range(n2):
        for ib in range(n2):
            for j in range(N):
                E.claim_eq('directCorr[%d%d][k%d]' % (ia, ib, j), P2.directCorr.data[j, ia, ib], P1.directCorr.data[j, 0, 0])
                E.claim_eq('h_ab==h[%d%d][k%d]' % (ia, ib, j), P2.totalCorr.data[j, ia, ib], P1.totalCorr.data[j, 0, 0], abstract=cabs)
            for i in range(N):
                E.claim_eq('cost_ab==cost[%d%d][r%d]' % (ia, ib, i), y2[i * n2 * n2 + ia * n2 + ib], y1[i], abstract=cabs)
    E.claim('canary', E.eq(P2.totalCorr.data[0, 0, 1], 2.0 * P1.totalCorr.data[0, 0, 0]), canary=True)


def _mk(E, pot, eps, high, sg):
    P = pyPRISM.potential
    if pot == 'HardSphere':
        return P.HardSphere(sigma=sg, high_value=high)
    if pot == 'Exponential':
        return P.Exponential(epsilon=eps, alpha=E.real('alpha', pos=True, default=0.5), sigma=sg, high_value=high)
    if pot == 'HardCoreLennardJones':
        return P.HardCoreLennardJones(epsilon=eps, sigma=sg, high_value=high)
    if pot == 'LennardJones':
        return P.LennardJones(epsilon=eps, sigma=sg)
    if pot == 'LennardJonesCutShift':
        return P.LennardJones(epsilon=eps, sigma=sg, rcut=E.real('rcut', pos=True, default=0.6), shift=True)
    if pot == 'WeeksChandlerAndersen':
        return P.WeeksChandlerAndersen(epsilon=eps, sigma=sg)
    raise KeyError(pot)


def scale_step(E, pot):
    """u(lambda*eps, lambda*high)/(lambda*kT) == u(eps, high)/kT : the closures see the same reduced potential"""
    N = 3
    lam = E.real('lam', pos=True, default=2.5)
    kT = E.real('kT', pos=True, default=1.3)
    dr = E.real('dr', pos=True, lo=1e-3, default=0.25)
    eps = E.real('eps', default=0.7); high = E.real('high', default=1e6)
    rho = E.real('rho', pos=True, default=0.3)
    res = []
    for (e_, h_, k_) in ((eps, high, kT), (eps * lam, high * lam, kT * lam)):
        S = pyPRISM.System(['A'], kT=kT)
        S.kT = k_                       # temperature set by assignment, as in a sweep
        S.domain = pyPRISM.Domain(length=N, dr=dr)
        S.density['A'] = rho; S.diameter['A'] = dr * 2
        S.potential['A', 'A'] = _mk(E, pot, e_, h_, None)
        S.closure['A', 'A'] = pyPRISM.closure.HyperNettedChain()
        S.omega['A', 'A'] = pyPRISM.omega.SingleSite()
        res.append(S.createPRISM())
    E.reachable('scale')
    u1 = res[0].sys.closure['A', 'A'].potential; u2 = res[1].sys.closure['A', 'A'].potential
    for i in range(N):
        E.claim_eq('u/kT-unchanged[%d]' % i, u2[i], u1[i])
    E.claim('canary', E.eq(u2[N - 1], u1[N - 1] * lam + 1.0), canary=True)


def scale_pmf(E):
    N = 2
    lam = E.real('lam', pos=True, default=2.5)
    out = []
    g = E.arr('g', (N, 2, 2), pos=True, default=0.8)
    for i in range(N):
        g[i, 1, 0] = g[i, 0, 1]
    for scale in (1.0, lam):
        B = build(E, 2, N)
        B.S.kT = B.kT * scale
        P = B.S.createPRISM()
        P.totalCorr.data = g - 1.0
        P.totalCorr.space = Space.Real
        out.append(pyPRISM.calculate.pmf(P))
    E.reachable('pmf')
    for idx in _np.ndindex(N, 2, 2):
        E.claim_eq('pmf-scales[%s]' % (idx,), out[1].data[idx], lam * out[0].data[idx])
    E.claim('canary', E.eq(out[1].data[0, 0, 0], out[0].data[0, 0, 0] + 1.0), canary=True)
