"""C12 - tabulated omega (FromArray / FromFile) is returned verbatim on a matching grid and rejected otherwise."""
import numpy as _np, os, tempfile
import pyPRISM
from vsym import npx
from vsym.core import SR

PROP = 'C12'
BATCH = 4
BOUNDS = dict(N=3, lengths='N-1, N, N+1 for the data and for the k column', k='arbitrary increasing symbolic domain grid and arbitrary symbolic k column (equal, shifted, rescaled, single-point deviations are all values of these symbols)',
              files='one-column and two-column layouts (np.loadtxt stubbed by a symbolic array of the shape loadtxt would return; replays write a real text file)', pipeline='rank 1-2 createPRISM()+cost(x) for one-column files of the wrong length')
OUTSIDE = ['N != 3 (no length-dependent branch other than the shape comparison)', 'text parsing of np.loadtxt itself (stub; its squeeze rule for 1 row / 1 column is modelled)']
ASSUMPTIONS = ['a deviation within a relative 1e-6 of the allclose tolerance itself is not specified either way (float rounding decides there)', 'oracle for "matches": |k_i - K_i| <= 1e-8 + 1e-5*|K_i| for every i (numpy.allclose defaults, K the domain grid), written out in the harness', '"rejected" = any exception (the code uses assert / numpy raises on shape mismatch)']

N = 3


def instances(tier):
    out = []
    for M in (N - 1, N, N + 1):
        for kcol in ('none', N - 1, N, N + 1):
            out.append(dict(name='array[M%d,k=%s]' % (M, kcol), fn='from_array', args=dict(M=M, kcol=kcol), max_paths=64))
    for M in (N - 1, N, N + 1):
        out.append(dict(name='file2col[M%d]' % M, fn='from_file', args=dict(M=M, cols=2), max_paths=64))
    out.append(dict(name='file1col[M%d]' % N, fn='from_file', args=dict(M=N, cols=1)))
    for M in (1, 2, 4, 6):
        for rank in (1, 2):
            out.append(dict(name='file1col-pipeline[M%d,r%d]' % (M, rank), fn='file_pipeline', args=dict(M=M, rank=rank)))
    out.append(dict(name='array-pipeline', fn='array_pipeline', args={}))
    out.append(dict(name='export-unequal', fn='export_unequal', args={}))
    return out


def domain_k(E):
    from .common import inc_grid
    return inc_grid(E, 'K', N)


def close_oracle(E, kk, K, slack=0.0):
    """numpy.allclose written out; slack widens (+) or narrows (-) the tolerance by a relative 1e-6 so that a
    difference sitting exactly on the tolerance (where float rounding decides) is not specified either way"""
    f = 1.0 + slack
    return E.band(*[E.le(abs(kk[i] - K[i]) if not E.sym else _abs(E, kk[i] - K[i]), (1e-8 + 1e-5 * (abs(K[i]) if not E.sym else _abs(E, K[i]))) * f) for i in range(len(K))])


def _abs(E, v):
    return abs(SR.lift(v))


def from_array(E, M, kcol):
    K = domain_k(E)
    w = E.arr('w', M, default=0.7)
    kk = None if kcol == 'none' else E.arr('k', kcol, default=0.5)
    if not E.sym and kk is not None and not any(('k_%d' % i) in E.values for i in range(len(kk))):
        kk[:min(len(kk), N)] = K[:min(len(kk), N)]
    w_caller = w.copy(); k_caller = None if kk is None else kk.copy()
    om = pyPRISM.omega.FromArray(w) if kk is None else pyPRISM.omega.FromArray(w, kk)
    # later changes to the caller's arrays must not leak into the stored values
    if E.sym:
        w[0] = w[0] + 1.0
    else:
        w[0] += 1.0
    if kk is not None:
        kk[0] = kk[0] * 2.0
    try:
        val = om.calculate(K)
        raised = None
    except (AssertionError, ValueError, TypeError, IndexError) as e:
        val = None; raised = e
    E.reachable('from_array')
    lengths_ok = (M == N) and (kcol == 'none' or kcol == N)
    if not lengths_ok:
        E.claim_true('rejected-on-length-mismatch', raised is not None)
        return
    if raised is not None:
        # on a matching grid the data must be returned
        E.claim('rejected-only-when-k-differs', E.bnot(True if kcol == 'none' else close_oracle(E, k_caller, K, -1e-6)))
    else:
        E.claim('returned-only-when-k-matches', True if kcol == 'none' else close_oracle(E, k_caller, K, +1e-6))
        E.claim_true('shape', _np.shape(val) == (N,))
        for i in range(N):
            E.claim_eq('verbatim[%d]' % i, val[i], w_caller[i])
        E.claim_true('not-the-callers-array', val is not w and not _np.shares_memory(val, w))
        val2 = om.calculate(K)
        for i in range(N):
            E.claim_eq('repeatable[%d]' % i, val2[i], w_caller[i])
        E.claim('canary', E.eq(val[0], w_caller[0] + 1.0), canary=True)
        # history: the same object evaluated afterwards on a grid that does not match must be rejected
        if kcol != 'none':
            _second(E, om, k_caller, K * 3.0)


def _second(E, om, kcolumn, K2):
    """history: the same object evaluated afterwards on another grid is judged against THAT grid (nothing cached)"""
    try:
        om.calculate(K2); raised = False
    except (AssertionError, ValueError):
        raised = True
    if raised:
        E.claim('second-evaluation:rejected-only-when-k-differs', E.bnot(close_oracle(E, kcolumn, K2, -1e-6)))
    else:
        E.claim('second-evaluation:returned-only-when-k-matches', close_oracle(E, kcolumn, K2, +1e-6))


def _install_file(E, data):
    """symbolic: np.loadtxt is stubbed to return `data` (with loadtxt's squeeze rule); concrete: write a real text file"""
    if E.sym:
        arr = data
        if arr.ndim == 2 and arr.shape[1] == 1:
            arr = arr[:, 0]
        if arr.ndim >= 1 and arr.shape[0] == 1:
            a0 = _np.empty(arr.shape[1:], dtype=object); a0[...] = arr[0]
            arr = a0
        npx.NP.LOADTXT = lambda fname: arr.copy()
        return '/nonexistent/symbolic-file.dat'
    fd, name = tempfile.mkstemp(prefix='c12-', suffix='.dat', dir=os.environ.get('TMPDIR', '/tmp'))
    os.close(fd)
    _np.savetxt(name, _np.asarray(data, dtype=float))
    return name


def from_file(E, M, cols):
    K = domain_k(E)
    data = E.arr('f', (M, cols), default=0.6)
    if not E.sym and cols == 2 and not any(k.startswith('f_') for k in E.values):
        data[:min(M, N), 0] = K[:min(M, N)]
    name = _install_file(E, data)
    try:
        om = pyPRISM.omega.FromFile(name)
        try:
            val = om.calculate(K); raised = None
        except (AssertionError, ValueError, TypeError, IndexError) as e:
            val = None; raised = e
        E.reachable('from_file')
        if cols == 2:
            if M != N:
                E.claim_true('rejected-on-length-mismatch', raised is not None)
                return
            col = [data[i, 0] for i in range(N)]
            if raised is not None:
                E.claim('rejected-only-when-k-differs', E.bnot(close_oracle(E, col, K, -1e-6)))
                return
            E.claim('returned-only-when-k-matches', close_oracle(E, col, K, +1e-6))
        else:
            E.claim_true('one-column-of-matching-length-returned', raised is None)
            if raised is not None:
                return
        E.claim_true('shape', _np.shape(val) == (M,))
        for i in range(M):
            E.claim_eq('verbatim[%d]' % i, val[i], data[i, cols - 1])
        E.claim('canary', E.eq(val[0], data[0, cols - 1] + 1.0), canary=True)
        if cols == 2:
            _second(E, om, [data[i, 0] for i in range(N)], K * 3.0)
    finally:
        npx.NP.LOADTXT = None
        if not E.sym and os.path.exists(name):
            os.unlink(name)


def _system(E, rank, omega_obj):
    types = ['A', 'B'][:rank]
    S = pyPRISM.System(types, kT=E.real('kT', pos=True, default=1.2))
    dr = E.real('dr', pos=True, lo=1e-3, default=0.25)
    S.domain = pyPRISM.Domain(length=N, dr=dr)
    for t in types:
        S.density[t] = E.real('rho' + t, pos=True, default=0.3); S.diameter[t] = dr * 1
    S.potential[types, types] = pyPRISM.potential.HardSphere()
    S.closure[types, types] = pyPRISM.closure.PercusYevick()
    S.omega[types, types] = omega_obj
    return S


def file_pipeline(E, M, rank):
    """a one-column file of the wrong length: no correlation function is ever produced (error at the latest in createPRISM or the first cost)"""
    data = E.arr('f', (M, 1), default=0.6)
    name = _install_file(E, data)
    try:
        S = _system(E, rank, pyPRISM.omega.FromFile(name))
        x = E.arr('x', (N * rank * rank,), default=0.1)
        produced = {}

        def run():
            P = S.createPRISM()
            y = P.cost(x)
            produced['y'] = y; produced['P'] = P
        E.expect_raises('mismatched-one-column-file-rejected', (Exception,), run)
        E.claim_true('no-correlation-function-produced', 'y' not in produced)
        E.reachable('pipeline')
    finally:
        npx.NP.LOADTXT = None
        if not E.sym and os.path.exists(name):
            os.unlink(name)


def array_pipeline(E):
    """through the System: the stored omega is a copy (later edits of the caller's array do not reach the PRISM object)"""
    w = E.arr('w', N, default=0.7)
    w0 = w.copy()
    S = _system(E, 1, pyPRISM.omega.FromArray(w))
    if E.sym:
        w[1] = w[1] + 5.0
    else:
        w[1] += 5.0
    P = S.createPRISM()
    E.reachable('array-pipeline')
    for j in range(N):
        E.claim_eq('omega[k%d]==w*rho' % j, P.omega.data[j, 0, 0], w0[j] * S.density['A'])
    E.claim('canary', E.eq(P.omega.data[0, 0, 0], w0[0]), canary=True)


def export_unequal(E):
    from pyPRISM.core.PairTable import PairTable
    T = PairTable(['A', 'B'], 'omega')
    T['A', 'A'] = E.arr('a', 3, default=0.1); T['A', 'B'] = E.arr('b', 3, default=0.2); T['B', 'B'] = E.arr('c', 4, default=0.3)
    E.expect_raises('export-of-unequal-lengths-raises-ValueError', (ValueError,), lambda: T.exportToMatrixArray())
    T['B', 'B'] = E.arr('d', 3, default=0.4)
    MA = T.exportToMatrixArray()
    E.claim_true('export-shape', MA.data.shape == (3, 2, 2))
    for i in range(3):
        E.claim_eq('export-AB[%d]' % i, MA['A', 'B'][i], T['A', 'B'][i])
        E.claim_eq('export-BA[%d]' % i, MA['B', 'A'][i], T['A', 'B'][i])
