#!/usr/bin/env python3
"""Regenerates /verif/MANIFEST.json from the table below (one place to keep it valid)."""
import json, os
V = os.path.dirname(os.path.dirname(os.path.abspath(__file__)))

SYMX = 'bounded symbolic execution of the real pyPRISM functions on numpy object arrays of z3 reals (symx), one SMT validity query per obligation and path; counterexamples replayed concretely on the unpatched code'
CH = 'CrossHair symbolic execution (z3) of the real container classes against a dict reference model, inductive step from an enumerated pre-state shape'

CHECKS = {
    'C09': dict(tech=SYMX, ref='3/C09',
                text='For every closure (and alias) x hard-core flag, the real calculate() is executed on a 3-point arbitrary increasing grid with symbolic gamma, u, sigma; per path (core size) the solver proves c_i equals the published relation / -1-gamma_i for all real values, purity and repeatability; first-order limit proven by running the same code over dual numbers. Bounded: 3 grid points; Real (not float) arithmetic.',
                note='Trusted: numpy object-array semantics, z3/nlsat, the Ackermann axioms for exp/sqrt listed in evidence. MS deviates from the published relation (known finding, test-pinned).'),
    'C10': dict(tech=SYMX, ref='3/C10',
                text='Each shipped potential (HardSphere, Exponential, HardCoreLennardJones, LennardJones plain/cut/cut+shift, WCA) is executed on a 3-point arbitrary increasing grid with every parameter symbolic (epsilon of either sign, alpha, sigma, rcut, high_value); per path (core size / cut position) the solver proves u_i equals the documented formula, core = r_i<=sigma for all three hard-core potentials, exactly 0 beyond r_cut, continuity at r_cut when shifted, WCA >= -1e-12*eps and 0 beyond its cut, purity and repeatability; sigma defaulting proven through the real createPRISM. Bounded: 3 grid points, Real arithmetic.',
                note='Trusted: numpy object-array semantics, z3/nlsat, exp Ackermann axioms. 2**(1/6) is read as the simplest rational within half an ulp of the double. The FP question (a grid point that coincides with sigma up to rounding) is a separate obligation family.'),
    'C13': dict(tech=SYMX, ref='3/C13',
                text='An interpreter applies operation sequences (depth 1-3 over + - * / with scalar / bare array / MatrixArray / length-1 MatrixArray operands, in and out of place, dot, @, @=, invert in/out of place, get_copy, keyed assignment, setMatrix) to the real MatrixArray / IdentityMatrixArray with symbolic data and to a plain-loop reference model; after every step the solver proves every entry equal to the model for all data, A.dot(A.invert())=I under det!=0, and identity/memory-sharing facts (operands untouched, results share no memory, in-place returns self) are checked; all 3x3 space-flag pairs x 12 binary operations enumerated; keyed access incl. unknown names. Bounded: rank 1-3 (4-5 without inverse in thorough), length 1-3.',
                note='Trusted: numpy object-array semantics (einsum, broadcasting, in-place ops), z3. np.linalg.inv is an adjugate stub in symbolic mode (differential-tested); the inverse claim is decided independently as a product identity.'),
    'C15': dict(tech=SYMX, ref='3/C15',
                text='Every assignment history up to the stated depth (each step assigns one type or any list of types, density and diameter, with fresh symbolic positive values; re-assignments included) is executed on the real Density/Diameter objects; after every step the solver proves pair=rho_a*rho_b, site, total=sum of assigned, sigma=(d_a+d_b)/2, volume=pi*d^3/6 and the reads Diameter[a], Diameter[a,b] for all values, and check() raises exactly while a type is unassigned. Bounded: 1-4 types, depth 1-3 (see evidence bounds).',
                note='Trusted: numpy object arrays, z3. Histories longer than the bound are outside (the finite part of the state is enumerated, values are symbolic).'),
    'C07': dict(tech=SYMX, ref='3/C07',
                text='Real Domain objects built from dr or dk and driven through every setter sequence (dr=, dk=, length=) up to the stated depth with symbolic spacings are proven, attribute by attribute (r, k, dk, both coefficient arrays, long_r), equal to a fresh Domain(length, dr) and to r_i=(i+1)dr, k_j=(j+1)dk, dk*dr*length=pi; to_real(to_fourier(f))=f, to_fourier(to_real(F))=F and linearity are proven for all f,g,a,b,dr with exact algebraic DST weights for N=1..6; the MatrixArray versions for rank 1-3 (per-pair identical map, symmetry, flag flip, ValueError when already there, no trace after refusal); earlier transform results are not overwritten by later ones. Bounded: lengths 1-6 (setters 1-4), depth 2 (3 thorough); Real arithmetic.',
                note='Trusted: dst stub = documented sine sums (differential-tested vs scipy each run; overwrite_x modelled as writing into and returning x), arange stub = documented length rule. The float behaviour of np.arange (grid length) is not covered by the Real model; see DESIGN.md.'),
    'C08': dict(tech=SYMX, ref='3/C08',
                text='Structural part only: for N=1..6 and Domains built from dr, from dk and after a re-assignment of dr/dk/length, the solver proves for all f, F and spacings that to_fourier(f)_j = 4*pi*dr*Sum_n r_n f_n sin(k_j(r_n-dr/2))/k_j and to_real(F)_i = dk/(2*pi^2 r_i)*Sum\'_n k_n F_n sin(k_n(r_i-dr/2)) on the harness\'s own grid, i.e. each direction separately is the half-cell-shifted Riemann sum of its continuous 3-D integral with prefactor 4*pi resp. 1/(2*pi^2) (compensating prefactor errors are refuted).',
                note='The convergence statement (error <= C*dr, monotone under refinement, k->0 limit) is NOT decided: not encodable; O(dr) consistency follows from the proven Riemann-sum form by the textbook argument. sin is linked to exact algebraic values at rational multiples of pi.'),
    'C01': dict(tech=SYMX, ref='3/C01',
                text='The real System.createPRISM() + PRISM.cost(x) are executed with symbolic densities, kT, dr (or dk), arbitrary potentials (fresh symbol per point), arbitrary tabulated omega and an arbitrary trial vector x; the solver proves, for every evaluation, (A) rho_pair*H = Omega C (Omega + rho_pair*H) entrywise at every k with Omega = user omega * site density, (B) each pair\'s real-space closure output equals that pair\'s published closure of gamma_in = x/r, that pair\'s u/kT and sigma, and directCorr(k) is its Riemann-sum transform, (C) y = r*(FT^-1(H-C) - x/r); PRISM.solve/System.solve with a nondeterministic root stub leave totalCorr (real space), directCorr, omega and minimize_result.fun equal to those of the returned point. Includes list-assigned tables, kT assigned after construction, explicit potential sigma, Domain built from dk. Bounded: rank 1-3, N=2-3.',
                note='Trusted: numpy object arrays, z3, stubs (dst sine sums, adjugate inverse, root stub whose contract is validated concretely on scipy each run). The step from the residual to the closure discrepancy is a mean-value argument on paper. MS oracle = shipped expression (C09 known finding).'),
    'C02': dict(tech=SYMX, ref='3/C02',
                text='Structural part only: for a one-component system (real SingleSite omega, N=2-3, Domain from dr or dk, PY/HNC/MSA) the solver proves that every evaluation of cost imposes h(k)(1-rho c(k)) = c(k) with c(k) the Riemann sum 4 pi dr Sum r c(r) sin(k(r-dr/2))/k of that closure of gamma_in and u/kT, S = 1+rho h = 1/(1-rho c) (normalised and unnormalised), that at gamma=0 the closure output gives g = exp(-u/kT) (PY, HNC) resp. 1-u/kT outside / 0 inside (MSA) for every shipped potential with symbolic parameters and the residual is rho times a bounded expression (so gamma=0 is the rho->0 fixed point), and that second_virial on the dilute object is -c(k0)/2 with the 4 pi Riemann sum (sign and prefactor of -2 pi Int (e^{-u/kT}-1) r^2 dr).',
                note='NOT decided: numerical agreement with Wertheim-Thiele and the O(dr) convergence rate (no SMT encoding of a fine-grid nonlinear solve; sampling is not this technique). The oracle is the current half-cell rectangle rule.'),
    'C03': dict(tech=SYMX, ref='3/C03',
                text='For every evaluation of the real cost(x) with arbitrary x, densities, kT, omega: at every grid point with r_i <= sigma of a hard-core pair the recorded closure output satisfies c + x/r = -1 exactly - all four closures with the flag over an arbitrary potential (every core size), PY and HNC without the flag over HardSphere/HardCoreLennardJones/Exponential using the IEEE fact exp(t)=0 for t<=-746 under the stated preconditions on high_value/kT, rank 2 with the hard pair in every position among arbitrary soft pairs, list-assigned tables, explicit potential sigma; on a solved object (root stub) totalCorr+1 = fun/r at core points.',
                note='Preconditions are stated on the user parameters (high_value/kT >= 746; for HNC also high_value/kT - gamma >= 746). MSA/MS without the flag excluded as the property says. Root finder stubbed as in C01.'),
    'C04': dict(tech=SYMX, ref='3/C04',
                text='The self-consistency map x -> (cost(x), totalCorr, directCorr, omega) of the real code is proven, for every symmetric trial vector and all symbolic parameters, (i) equivariant under re-ordering the type list (rank 2 incl. list-assigned tables; rank 3: quick = createPRISM wiring for all 5 orders, thorough = full map with C(k) arbitrary), (ii) equal for a monatomic fluid and its A/A\' split at any ratio (NoIntra and InterMolecular cross omega) and for a homopolymer and its symmetric diblock halves with exact block omegas (all pair functions equal the unsplit one), (iii) unchanged when every energy parameter and kT (assigned, as in a sweep) are multiplied by lambda for every shipped potential, with pmf scaling by lambda. Zeros of equal/equivariant maps correspond, which is the statement about solutions.',
                note='Which zero scipy converges to is outside. Matrix stage at rank 3 is proven for arbitrary C(k) (forward transform havoc\'d on the Domain instance) and composed with the separately proven equalities via lemma-carrying abstraction. N=2.'),
    'C05': dict(tech=SYMX, ref='3/C05',
                text='On PRISM objects made by the real createPRISM (arbitrary user densities, diameters, kT, omega) whose totalCorr/directCorr are hand-populated with arbitrary symmetric symbols in every accepted combination of space flags, the solver proves each calculate.* return value equal to its definition as a function of those symbols: g=h+1, pmf=-kT ln g, S=rho_site*omega+rho_pair*h (normalised or not), B2=-h(k0)/2 or the Lagrange quadratic at 0, spinodal = Lagrange value at 0 of det(I-Omega C) of the pair block (harness cofactor), chi with weights 1/R : R : -2 and prefactor (and (rho/2)(Caa+Cbb-2Cab) for equal volumes), solvation = FT^-1(-kT C S C) / FT^-1(-kT ln(1+C S C)) with S as structure_factor returns it; (a,b)/(b,a) symmetry; on self-consistent objects (I-Omega C) S = Omega. Rank 2-3 (4 for the pair loops), N=3.',
                note='polyfit/poly1d are an exact least-squares stub (oracle is Lagrange interpolation); log/sqrt Ackermannised with arguments merged when provably the same polynomial; intermediates abstracted with separately proven lemmas.'),
    'C06': dict(tech=SYMX, ref='3/C06',
                text='Every ordered pair (and selected triples) of operations from {12 calculate calls with every flag value, user transform of totalCorr/directCorr/omega} is executed on one hand-populated object from several start states of the space flags; after EVERY step the solver proves (i) the abstract content (Omega(k), H(k), C(k) read through the current flags) still equals the base symbols and (ii) the returned value equals the C05 definition on the base symbols - the inductive step that makes results independent of history of any length; no call raises because an array is in the other space; after a history followed by a re-evaluation cost(x) at arbitrary x every stored array and every calculate result equals that of a fresh object evaluated at x. Rank 2 (3 in thorough), N=3.',
                note='solve itself = root stub contract (C01). The exact round trip on N=3 is re-proven inside the obligations.'),
    'C12': dict(tech=SYMX, ref='3/C12',
                text='Real FromArray / FromFile (np.loadtxt stubbed by a symbolic array of the shape loadtxt returns; replays write a real file) with symbolic data, symbolic k column and an arbitrary increasing symbolic domain grid: per path the solver proves returned <=> lengths equal and every |k_i-K_i| within the allclose tolerance (written out; a 1e-6 relative band around the tolerance itself is left unspecified), rejected otherwise; returned values are the stored symbols in order; caller-side mutation after construction does not leak; a second evaluation on another grid is judged against that grid; one-column files of the wrong length (M=1,2,4,6 vs N=3, rank 1-2) never yield a correlation function through createPRISM()+cost(x); exportToMatrixArray refuses unequal lengths.',
                note='A path on which the code leaves the encodable fragment (e.g. forces float dtype) is re-run concretely on default inputs; a failing claim there is reported, otherwise harness error.'),
    'C17': dict(tech=SYMX, ref='3/C17',
                text='Each documented UnitConverter method is executed with a symbolic magnitude (pint multiplies it through): no exception; units as documented; the solver proves magnitude == a*x+b for all x (a*x*d^3 for toVolumeFraction with symbolic diameter) with a,b read off the returned term, and a,b agree to 1e-9 with the textbook values computed from SI-2019 constants carried by the harness; arrays are converted elementwise. Configurations: dc in {1,1.5,0.37} x {nm, angstrom}, ec in {2.48 kJ/mol, 1 kcal/mol, 4.1e-21 J}.',
                note='Unit strings are concrete (pint parser). pint itself is executed, not modelled.'),
    'C16': dict(tech=SYMX, ref='3/C16',
                text='(missing) which specification items are supplied is a vector of symbolic booleans (rank 1: all 64 masks) / an enumerated list (rank 2: all subsets of <=2 of 14 items, <=3 thorough): check(), createPRISM() and solve() raise ValueError, from inside check(), with no PRISM object and no root-finder call, iff something is missing. (wiring) with every shipped potential/closure class and Gaussian/SingleSite/NoIntra/InterMolecular/FromArray omegas and all parameters symbolic the solver proves closure.potential = u_spec(r)/kT, closure.sigma=(da+db)/2, potential.sigma explicit-or-mean, omega = omega_spec(k)*rho_site, per-pair objects distinct (also for list-assigned tables and kT assigned later). (isolation) the System (identity and value of every table entry, potential sigmas, domain arrays) is unchanged by createPRISM, cost and solve(stub); no array is shared; after editing every System field the PRISM object\'s wiring and cost(x) are unchanged. (sweep) a System edited field by field to theta2 gives the same wiring and the same cost(x) as a fresh System(theta2).',
                note='Root finder stubbed (C01 contract); equal wiring + equal x gives equal results assumes scipy is deterministic.'),
    'C11': dict(tech=SYMX, ref='3/C11',
                text='Real Gaussian and FreelyJointedChain calculate() with symbolic k (2-element array), sigma/l and N=2..12 (32 thorough): the solver proves the closed form equals (1/N) Sum_ij E^|i-j| as a polynomial identity in the Ackermannised E (whose value is N at E=1 and 1 at E=0), 1-E != 0 for k>0 (finite), omega <= N, omega>0 (Gaussian), and the value at k0 mentions no other k; GaussianRing N=2..8 equals its pair sum; SingleSite=1, NoIntra/InterMolecular=0; DiscreteKoyama: ValueError <=> l<=sigma/2 or lp<4l^3/(4l^2-sigma^2) for symbolic sigma,l,lp, constructor accepts valid parameters, calculate(k)=1+(2/N)Sum(N-n)kappa_n(k) for symbolic k (N=3..8, 3 parameter sets); NFJC: evaluates, and no denominator met in the real calculate on its 999-node quadrature can vanish for k>0.',
                note='Not decided: N>32, the numerical value of the NFJC quadrature, Koyama moment formulas, floating-point cancellation of the closed forms at tiny k (Real model), the k->0/inf limits themselves (continuity of the proven polynomial identity).'),
}

NOT_YET = {}
NA = {
    'C18': 'pyPRISM/trajectory/Debyer.pyx does not compile against the pinned numpy (np.int / np.int_t), so the class does not exist in this environment; its subject (OpenMP prange chunking, reduction order, thread counts in C) is C-level concurrency that solver-based checking of Python code does not model',
}


def main():
    props = [json.loads(l)['id'] for l in open(os.path.join(V, 'properties.jsonl'))]
    checks = []
    for pid in props:
        if pid not in CHECKS:
            continue
        c = CHECKS[pid]
        checks.append(dict(property_id=pid, quick_cmd='./check %s --tier quick' % pid, thorough_cmd='./check %s --tier thorough' % pid,
                           evidence_file='evidence/%s.json' % pid, replay_cmd_template='./check %s --replay {path}' % pid,
                           engine=c.get('engine', 'symx'),
                           level_claimed=dict(category='model_checking', text=c['text'], design_ref='DESIGN.md section ' + c['ref']),
                           level_note=c['note'], technique=c['tech']))
    na = []
    for pid in props:
        if pid in CHECKS:
            continue
        na.append(dict(property_id=pid, reason=NA.get(pid) or NOT_YET.get(pid) or 'check not built yet in this revision (in progress; no claim is made)'))
    m = dict(version=1, setup_cmd='./setup.sh',
             hooks=dict(guard='PYPRISM_VERIF', enable='none needed: the checker patches module globals (np, dst, warnings) of the imported pyPRISM modules from outside; /repo contains no hook code',
                        baseline_off_cmd='cd /repo && /venv/bin/python -m pytest -ra -q -p no:cacheprovider --timeout=900 --continue-on-collection-errors',
                        source_commits=[], add_only=True),
             engines=[dict(name='symx', path='vsym/', serves_properties=[p for p in props if p in CHECKS and CHECKS[p].get('engine', 'symx') == 'symx'],
                           kind_free_text='symbolic execution of the real Python/numpy code over z3 reals (fraction-free scalars in dtype=object arrays), re-executing DFS over comparisons, SMT validity query per obligation, concrete replay of counterexamples'),
                      dict(name='crosshair', path='harness/ch_templates/', serves_properties=[p for p in props if p in CHECKS and CHECKS[p].get('engine') == 'crosshair'],
                           kind_free_text='CrossHair 0.0.110 (z3-backed symbolic execution of Python) on generated PEP-316 harnesses')],
             checks=checks, not_applicable=na,
             notes='Exit codes of ./check: 0 held (KNOWN-FINDING lines possible), 1 replayed unlisted violation (VIOLATION line), 2 inconclusive (solver unknown/timeout), 3 harness error (stub differential failed / model did not reproduce). known_findings.json lists recorded and fixed defects.')
    json.dump(m, open(os.path.join(V, 'MANIFEST.json'), 'w'), indent=1)
    print('MANIFEST.json: %d checks, %d not_applicable' % (len(checks), len(na)))


if __name__ == '__main__':
    main()
