#!/bin/bash
# run_seed.sh <patch.diff> <tier> <prop> [prop...] : run the checks against a seeded change.
# Default: a scratch git worktree of /repo (outside /repo and /verif) gets the patch, the checks run against it
# (VERIF_REPO) writing evidence/replays to a scratch dir (VERIF_OUT), and the worktree is removed afterwards, so the
# real /repo is never touched and clean runs can go on in parallel.  With INPLACE=1 the patch is applied to /repo
# itself (git -C /repo apply) and undone afterwards (git -C /repo checkout -- .).
P=$1; T=$2; shift 2
if [ -n "$INPLACE" ]; then
  [ -z "$(git -C /repo status --short --untracked-files=no)" ] || { echo "/repo not clean"; exit 3; }
  git -C /repo apply $P || exit 3
  trap 'git -C /repo checkout -- .' EXIT
  R=/repo; O=/verif
else
  R=$(mktemp -d /tmp/seedrepo-XXXX); O=$(mktemp -d /tmp/seedout-XXXX)
  git -C /repo worktree add --detach $R HEAD >/dev/null 2>&1 || { echo "worktree failed"; exit 3; }
  git -C $R apply $P || { git -C /repo worktree remove --force $R; exit 3; }
  trap 'git -C /repo worktree remove --force $R; rm -rf $O' EXIT
fi
for p in "$@"; do
  out=$(cd /verif && VERIF_REPO=$R VERIF_OUT=$O ./check $p --tier $T 2>&1); rc=$?
  echo "== $p rc=$rc: $(echo "$out" | grep -E '^(VIOLATION|HARNESS|INCONC)' | head -3 | sed "s#$O#<out>#g" | tr '\n' ' ')"
  echo "$out" | grep -E "^  obligation" | head -3
done
