#!/bin/bash
# run_seed.sh <patch.diff> <tier> <prop> [prop...] : apply a seeded change to /repo, run the checks, undo it.
P=$1; T=$2; shift 2
[ -z "$(git -C /repo status --short --untracked-files=no)" ] || { echo "/repo not clean"; exit 3; }
git -C /repo apply $P || exit 3
trap 'git -C /repo checkout -- .' EXIT
for p in "$@"; do
  out=$(cd /verif && VERIF_NO_EVIDENCE=1 ./check $p --tier $T 2>&1); rc=$?
  echo "== $p rc=$rc: $(echo "$out" | grep -E '^(VIOLATION|HARNESS|INCONCL)' | head -3 | tr '\n' ' ')"
  echo "$out" | grep -E "^  obligation" | head -3
done
