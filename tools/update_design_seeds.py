#!/usr/bin/env python3
"""regenerate the seed table at the end of DESIGN.md section 7.7 from seeded/*/meta.json"""
import json, os, glob
rows=[]; n=0; missed=[]
for d in sorted(glob.glob('/verif/seeded/*/')):
    m=json.load(open(d+'meta.json')); n+=1
    caught=', '.join(m['caught_by'])
    if not m['caught_by']:
        missed.append(os.path.basename(d[:-1]))
    rows.append('| `%s` | %s | %s | %s |' % (os.path.basename(d[:-1]), m['property'], m['needs_to_manifest'].replace('|','/'), (caught or '**not caught**').replace('|','/')))
s=open('/verif/DESIGN.md').read()
marker='| seed | property | needs | caught by |\n|---|---|---|---|\n'
a=s.index(marker)
s=s[:a]+marker+'\n'.join(rows)+'\n\nTotal: %d seeded changes, %d caught by the quick tier; not caught: %s.\n' % (n, n-len(missed), ', '.join(missed) or 'none')
open('/verif/DESIGN.md','w').write(s)
print(n, len(missed))
