#!/bin/bash
# process_seed.sh <prop> <k> [check props...] : confirm a seed from /tmp/seeds and run the quick checks against it
p=$1; k=$2; shift 2
props=${@:-$p}
D=/tmp/seeds/$p/$k
[ -f $D/patch.diff ] || { echo "$D: no patch"; exit 0; }
if ! git -C /repo apply --check $D/patch.diff 2>/dev/null; then echo "$D: does not apply to HEAD"; exit 0; fi
/verif/tools/confirm_seed.sh $D 2>&1 | grep -v "WARNING\|SyntaxW\|'''" | tail -1
/verif/tools/run_seed.sh $D/patch.diff quick $props 2>&1 | grep -v "WARNING\|SyntaxW\|'''\|whitespace\|^ *$"
