#!/bin/bash
# confirm_seed.sh <dir with patch.diff demo.py> : confirm in a scratch worktree that the patch passes the
# test-suite, the demo fails with it and passes without it. Prints one summary line.
D=$1
WT=$(mktemp -d /tmp/confirm-XXXX)
git -C /repo worktree add --detach $WT HEAD >/dev/null 2>&1 || { echo "worktree failed"; exit 3; }
cd $WT
/venv/bin/python $D/demo.py >/tmp/confirm-clean.$$ 2>&1; c0=$?
if ! git apply $D/patch.diff 2>/tmp/confirm-apply.$$; then echo "$D: PATCH DOES NOT APPLY: $(head -3 /tmp/confirm-apply.$$)"; cd /; git -C /repo worktree remove --force $WT; exit 2; fi
/venv/bin/python -m pytest -q -p no:cacheprovider --timeout=900 -x >/tmp/confirm-test.$$ 2>&1; t=$?
/venv/bin/python $D/demo.py >/tmp/confirm-mut.$$ 2>&1; c1=$?
echo "$D: demo_clean_rc=$c0 tests_rc=$t ($(tail -1 /tmp/confirm-test.$$)) demo_patched_rc=$c1"
cd /; git -C /repo worktree remove --force $WT; rm -f /tmp/confirm-*.$$
[ $c0 -eq 0 ] && [ $t -eq 0 ] && [ $c1 -ne 0 ]
