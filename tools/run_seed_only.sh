#!/bin/bash
# run_seed_only.sh <patch.diff> <prop> <only-substring> : like run_seed.sh (scratch worktree, scratch output dir)
# but restricted to the instances whose name contains the substring
P=$1; p=$2; O=$3
R=$(mktemp -d /tmp/seedrepo-XXXX); OUT=$(mktemp -d /tmp/seedout-XXXX)
git -C /repo worktree add --detach $R HEAD >/dev/null 2>&1 || exit 3
git -C $R apply $P || { git -C /repo worktree remove --force $R; exit 3; }
trap 'git -C /repo worktree remove --force $R; rm -rf $OUT' EXIT
out=$(cd /verif && VERIF_REPO=$R VERIF_OUT=$OUT timeout 1500 ./check $p --tier quick --only "$O" 2>&1); rc=$?
echo "== $p[$O] rc=$rc: $(echo "$out" | grep -E '^(VIOLATION|HARNESS|INCONC)' | head -2 | sed "s#$OUT#<out>#g" | tr '\n' ' ')"
echo "$out" | grep -E "^  obligation" | head -3
