#!/usr/bin/env python3
"""keep_seed.py <prop> <k> <slug> <caught_by> <needs...>  : copy /tmp/seeds/<prop>/<k> into /verif/seeded/<prop>-<k>-<slug>/ with meta.json"""
import sys, os, shutil, json
prop, k, slug, caught = sys.argv[1:5]
needs = ' '.join(sys.argv[5:])
src = '/tmp/seeds/%s/%s' % (prop, k)
dst = '/verif/seeded/%s-%s-%s' % (prop, k, slug)
os.makedirs(dst, exist_ok=True)
for f in ('patch.diff', 'demo.py', 'notes.md'):
    if os.path.exists(os.path.join(src, f)):
        shutil.copy(os.path.join(src, f), dst)
meta = dict(property=prop, breaks=prop, origin='independent sub-agent given only the property text and a scratch worktree',
            needs_to_manifest=needs,
            confirmed=['tools/confirm_seed.sh: in a scratch worktree the unedited test suite passes (59) with the patch, demo.py fails with it and passes without it',
                       'tools/run_seed.sh: patch applied to /repo, checks run, patch reverted'],
            caught_by=[c for c in caught.split(',') if c and c != 'none'],
            notes=open(os.path.join(src, 'notes.md')).read() if os.path.exists(os.path.join(src, 'notes.md')) else '')
json.dump(meta, open(os.path.join(dst, 'meta.json'), 'w'), indent=1)
print(dst)
