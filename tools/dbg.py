"""developer aid: run one harness instance in-process with per-claim timing.
   PYTHONPATH=/verif:/repo .venv/bin/python tools/dbg.py C01 'solve[r1,N2,PRISM.solve]' [query timeout ms] [tier]"""
import sys, json, time
sys.path[:0] = ['/verif', '/repo']
import warnings; warnings.simplefilter('ignore')
import z3
from vsym import core, npx
from vsym.env import Env
import importlib
prop, name = sys.argv[1], sys.argv[2]
H = importlib.import_module('harness.' + prop)
import pyPRISM
tier = sys.argv[4] if len(sys.argv) > 4 else 'thorough'
inst = [i for i in H.instances(tier) if i['name'] == name][0]
extra = getattr(H, 'PATCH_EXTRA', None)
npx.patch_all(extra=extra(inst) if callable(extra) else extra)
npx.DST_MODE = inst.get('dst_mode', 'exact')
E = Env('sym', prop, inst, timeout_ms=int(sys.argv[3]) if len(sys.argv) > 3 else 20000)
E.ladder = False
_claim = E.claim


def claim(key, cond, **kw):
    t = time.time(); n = len(E.results); _claim(key, cond, **kw); dt = time.time() - t
    if dt > 0.5 or (len(E.results) > n and E.results[-1]['verdict'] != 'holds' and not E.results[-1].get('canary')):
        print('  %-70s %6.2fs %s' % (key[:70], dt, E.results[-1]['verdict'] if len(E.results) > n else '-'), flush=True)


E.claim = claim
E._find_cex = lambda *a, **k: None
t0 = time.time()


def body(ctx):
    E.begin_path(ctx); ctx.exp_underflow = bool(inst.get('exp_underflow')); ctx.sin_exact = inst.get('sin_exact', 0)
    print('path start', round(time.time() - t0, 1), flush=True)
    return getattr(H, inst['fn'])(E, **inst.get('args', {}))


for ctx, (k, v) in core.explore(body, E.stats):
    print('path done', ''.join('T' if d[0] else 'F' for d in ctx.decisions), round(time.time() - t0, 1), flush=True)
    if k == 'exc':
        import traceback; traceback.print_exception(type(v), v, v.__traceback__)
print(len(E.results), E.stats, round(time.time() - t0, 1))
