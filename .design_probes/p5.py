import z3, time
F=z3.Float64(); RNE=z3.RNE()
dr=z3.FP('dr',F); nf=z3.FP('nf',F)
s=z3.Solver(); s.set('timeout',300000)
s.add(z3.fpGEQ(dr,z3.FPVal(0.001,F)), z3.fpLEQ(dr,z3.FPVal(1.0,F)))
s.add(z3.fpGEQ(nf,z3.FPVal(1.0,F)), z3.fpLEQ(nf,z3.FPVal(4096.0,F)), nf==z3.fpRoundToIntegral(RNE,nf))
stop=z3.fpMul(RNE,dr,z3.fpAdd(RNE,nf,z3.FPVal(1.0,F)))
q=z3.fpDiv(RNE,z3.fpSub(RNE,stop,dr),dr)
ln=z3.fpRoundToIntegral(z3.RTP(),q)
s.add(z3.Not(z3.fpEQ(ln,nf)))
t=time.time(); r=s.check(); print(r, round(time.time()-t,1))
if str(r)=='sat':
    m=s.model()
    import numpy as np
    def val(x):
        v=m.eval(x); 
        return float(eval(str(z3.simplify(z3.fpToReal(v))).replace('?','')) ) if False else v
    print(m[dr], m[nf])
    drv=float(z3.simplify(z3.fpToReal(m[dr])).as_fraction()); nv=int(float(z3.simplify(z3.fpToReal(m[nf])).as_fraction()))
    print(drv,nv,len(np.arange(drv,drv*(nv+1),drv)))
