import warnings; warnings.simplefilter('ignore')
import z3, numpy as _np, time, traceback
import pyPRISM
from symx import *
patch_all()
class HavocU(pyPRISM.potential.Potential):
    def __init__(s,name): s.sigma=None; s.name=name
    def calculate(s,r): return sym('u'+s.name,(len(r),))
N_=2; rank=2
def body(c):
    types=['A','B'][:rank]
    S=pyPRISM.System(types,kT=sym('kT'))
    dr=sym('dr'); c.assumes+=[dr.n>0, S.kT.n>0, z3.Real('PI')>3, z3.Real('PI')<4]
    S.domain=pyPRISM.Domain(length=N_,dr=dr)
    for t in types:
        S.density[t]=sym('rho'+t); S.diameter[t]=dr*1; c.assumes+=[S.density[t].n>0]
    for i,a in enumerate(types):
        for b in types[i:]:
            S.potential[a,b]=HavocU(a+b)
            S.closure[a,b]=pyPRISM.closure.HyperNettedChain()
            S.omega[a,b]=pyPRISM.omega.FromArray(sym('w'+a+b,(N_,)))
    P=S.createPRISM()
    x=sym('x',(N_*rank*rank,))
    # symmetric input
    X=x.reshape((N_,rank,rank)); X[:,1,0]=X[:,0,1]
    y=P.cost(x)
    return S,P,x,y
t=time.time()
for c,(kind,val) in explore(body):
    if kind=='exc': traceback.print_exception(val); continue
    S,P,x,y=val
    print('exec',round(time.time()-t,2))
    n=rank
    rho=[S.density[t] for t in S.types]
    for k in range(N_):
        H=[[P.totalCorr.data[k,i,j]*rho[i]*rho[j] for j in range(n)] for i in range(n)]
        W=[[P.omega.data[k,i,j] for j in range(n)] for i in range(n)]
        C=[[P.directCorr.data[k,i,j] for j in range(n)] for i in range(n)]
        def mm(A,B): return [[sum((A[i][l]*B[l][j] for l in range(1,n)),A[i][0]*B[0][j]) for j in range(n)] for i in range(n)]
        WH=[[W[i][j]+H[i][j] for j in range(n)] for i in range(n)]
        R=mm(mm(W,C),WH)
        for i in range(n):
            for j in range(n):
                t1=time.time(); st=prove(c,eqc(H[i][j],R[i][j]),timeout=120000)[0]; print(' k',k,i,j,st,round(time.time()-t1,2))
    print('total',round(time.time()-t,2),'queries',c.nq)
