import warnings; warnings.simplefilter('ignore')
import z3, numpy as _np, time, traceback, sys as _sys
import pyPRISM
from symx import *
patch_all()
class HavocU(pyPRISM.potential.Potential):
    def __init__(s,name): s.sigma=None; s.name=name
    def calculate(s,r): return sym('u'+s.name,(len(r),))
def build(c,rank,N,closure):
    types=['A','B','C'][:rank]
    S=pyPRISM.System(types,kT=sym('kT'))
    dr=sym('dr'); c.assumes+=[dr.n>0, S.kT.n>0, z3.Real('PI')>3, z3.Real('PI')<4]
    S.domain=pyPRISM.Domain(length=N,dr=dr)
    for t in types:
        S.density[t]=sym('rho'+t); S.diameter[t]=sym('d'+t); c.assumes+=[S.density[t].n>0,S.diameter[t].n>0]
    for i,a in enumerate(types):
        for b in types[i:]:
            S.potential[a,b]=HavocU(a+b)
            S.closure[a,b]=closure()
            S.omega[a,b]=pyPRISM.omega.FromArray(sym('w'+a+b,(N,)))
    return S
def body_rank1(c):
    S=build(c,1,N_,pyPRISM.closure.PercusYevick)
    P=S.createPRISM()
    x=sym('x',(N_,))
    y=P.cost(x)
    return S,P,x,y
for N_ in (2,3):
    t=time.time()
    for c,(kind,val) in explore(body_rank1):
        if kind=='exc': traceback.print_exception(val); continue
        S,P,x,y=val
        print('N',N_,'path ok; exec time',round(time.time()-t,2))
        r=S.domain.r; 
        # claim 1: PRISM eq per k:  H = W C (W + H),  H=rho^2 * totalCorr (Fourier), W=rho*w
        H=P.totalCorr.data[:,0,0]*S.density.pair.data[0,0,0]; W=P.omega.data[:,0,0]; C=P.directCorr.data[:,0,0]
        cl=z3.And(*[eqc(H[k], W[k]*C[k]*(W[k]+H[k])) for k in range(N_)])
        t1=time.time(); print('  PRISM eq:',prove(c,cl)[0],round(time.time()-t1,2))
        # claim 2: directCorr_fourier == to_fourier(PY(gamma_in,u/kT)) and y = r*(to_real(h-c) - gamma_in) => check h_real - c_real - gamma_in == y/r
        gin=[x[i]/r[i] for i in range(N_)]
        u=P.sys.closure['A','A'].potential
        creal=_np.array([((-1*u[i]).exp()-1)*(1+gin[i]) for i in range(N_)],dtype=object)
        chat=S.domain.to_fourier(creal)
        cl2=z3.And(*[eqc(chat[k],C[k]) for k in range(N_)])
        t1=time.time(); print('  closure wiring:',prove(c,cl2)[0],round(time.time()-t1,2))
        hreal=S.domain.to_real(P.totalCorr.data[:,0,0]); 
        cback=S.domain.to_real(C)
        cl3=z3.And(*[eqc(cback[i],creal[i]) for i in range(N_)])
        t1=time.time(); print('  round trip of c:',prove(c,cl3,timeout=120000)[0],round(time.time()-t1,2))
        cl4=z3.And(*[eqc((hreal[i]-cback[i]-gin[i])*r[i], y[i]) for i in range(N_)])
        t1=time.time(); print('  residual relation:',prove(c,cl4,timeout=120000)[0],round(time.time()-t1,2))
        print('  queries',c.nq,'solver s',round(c.tq,2))
