import warnings; warnings.simplefilter('ignore')
import z3, numpy as _np, time
import pyPRISM
from symx import *
patch_all()
from pyPRISM.closure import PercusYevick, HyperNettedChain, MartynovSarkisov, MeanSphericalApproximation
from pyPRISM.potential import HardSphere, LennardJones, WeeksChandlerAndersen, Exponential, HardCoreLennardJones

def run_closure(cls,hc):
    def body(c):
        L=3
        r=sym('r',(L,)); g=sym('g',(L,)); u=sym('u',(L,)); sig=sym('sig')
        c.assumes += [r[0].n>0, r[1].n>r[0].n, r[2].n>r[1].n, sig.n>0]
        clo=cls(apply_hard_core=hc); clo.potential=u; clo.sigma=sig
        g0=g.copy(); u0=u.copy()
        out=clo.calculate(r,g)
        return r,g,u,sig,out,g0,u0
    t=time.time(); paths=0; res=[]
    for c,(kind,val) in explore(body):
        paths+=1
        if kind=='exc': res.append(('EXC',repr(val))); continue
        r,g,u,sig,out,g0,u0=val
        claims=[]
        for i in range(3):
            spec_out={'PercusYevick':(SR.lift(-1*u[i]).exp()-1)*(1+g[i]),
                  'HyperNettedChain':(g[i]-u[i]).exp()-1-g[i],
                  'MeanSphericalApproximation':-u[i],
                  'MartynovSarkisov':(((g[i]-u[i])*2+1).sqrt()-1).exp()-1-g[i]}[cls.__name__]
            core=-1-g[i]
            if hc:
                claims.append(z3.If(r[i].n>sig.n, eqc(out[i],spec_out), eqc(out[i],core)))
            else:
                claims.append(eqc(out[i],spec_out))
        st,m=prove(c,z3.And(*claims))
        res.append(st if st!='cex' else ('cex',m))
    print(cls.__name__,hc,'paths',paths,[x if isinstance(x,str) else x[0] for x in res],round(time.time()-t,2),'queries',c.nq)
    return res
for cls in (PercusYevick,HyperNettedChain,MeanSphericalApproximation,MartynovSarkisov):
    for hc in (True,False):
        r=run_closure(cls,hc)
        for x in r:
            if not isinstance(x,str) and x[0]=='cex': print('   model:',str(x[1])[:300]); break
