import warnings; warnings.simplefilter('ignore')
import pyPRISM, numpy as np, z3, fractions, traceback
class SR:
    __array_priority__=1000
    def __init__(s,t): s.t=t
    @staticmethod
    def c(o):
        if isinstance(o,SR): return o.t
        if isinstance(o,(int,float,np.floating,np.integer)): return z3.RealVal(str(fractions.Fraction(float(o))))
        return NotImplemented
    def _b(s,o,f,rev=False):
        t=SR.c(o)
        if t is NotImplemented: return NotImplemented
        return SR(f(t,s.t) if rev else f(s.t,t))
    def __add__(s,o): return s._b(o,lambda a,b:a+b)
    def __radd__(s,o): return s._b(o,lambda a,b:a+b,True)
    def __sub__(s,o): return s._b(o,lambda a,b:a-b)
    def __rsub__(s,o): return s._b(o,lambda a,b:a-b,True)
    def __mul__(s,o): return s._b(o,lambda a,b:a*b)
    def __rmul__(s,o): return s._b(o,lambda a,b:a*b,True)
    def __truediv__(s,o): return s._b(o,lambda a,b:a/b)
    def __rtruediv__(s,o): return s._b(o,lambda a,b:a/b,True)
    def __neg__(s): return SR(-s.t)
    def __pow__(s,o): 
        assert float(o).is_integer(); r=SR(z3.RealVal(1))
        for _ in range(int(o)): r=r*s
        return r
    def __repr__(s): return 'SR(%s)'%z3.simplify(s.t)
uc=pyPRISM.util.UnitConverter(dc=1.5,dc_unit='nm')
x=SR(z3.Real('x'))
for name,args in [('toKelvin',(x,)),('toInvAngstrom',(x,)),('toInvNanometer',(x,)),('toConcentration',(x,))]:
    try:
        q=getattr(uc,name)(*args); print(name,q.units, q.magnitude)
    except Exception as e:
        print(name,'RAISES',type(e).__name__,str(e)[:300]); traceback.print_exc()
