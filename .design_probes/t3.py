import warnings; warnings.simplefilter('ignore')
import z3, numpy as _np, time, traceback
import pyPRISM
from symx import *
patch_all()
from pyPRISM.core.Domain import Domain
# inductive step: arbitrary consistent domain, one setter, compare with fresh Domain(length', dr')
def body(c, op, L0, L1):
    dr=sym('dr'); c.assumes+=[dr.n>0, z3.Real('PI')>3, z3.Real('PI')<4]
    d=Domain(length=L0,dr=dr)
    v=sym('v'); c.assumes+=[v.n>0]
    if op=='dr': d.dr=v; ref=Domain(length=L0,dr=v)
    elif op=='dk': d.dk=v; ref=Domain(length=L0,dk=v)
    elif op=='length': d.length=L1; ref=Domain(length=L1,dr=dr)
    return d,ref
for op,L0,L1 in (('dr',3,3),('dk',3,3),('length',2,3),('length',3,2)):
    for c,(kind,val) in explore(lambda c: body(c,op,L0,L1)):
        if kind=='exc': traceback.print_exception(val); continue
        d,ref=val
        claims=[eqc(d.dr,ref.dr),eqc(d.dk,ref.dk), z3.BoolVal(len(d.r)==len(ref.r)==d.length), z3.BoolVal(len(d.k)==len(ref.k)==d.length)]
        if len(d.r)==len(ref.r) and len(d.k)==len(ref.k):
            claims+=[eqc(a,b) for a,b in zip(d.r,ref.r)]+[eqc(a,b) for a,b in zip(d.k,ref.k)]
            claims+=[eqc(a,b) for a,b in zip(d.DST_II_coeffs,ref.DST_II_coeffs)]+[eqc(a,b) for a,b in zip(d.DST_III_coeffs,ref.DST_III_coeffs)]
        st,m=prove(c,z3.And(*claims))
        print(op,L0,L1,st, (str(m)[:200] if m is not None else ''))
