import warnings; warnings.simplefilter('ignore')
from typing import List, Tuple
from pyPRISM.core.PairTable import PairTable
TYPES=['A','B','C']
PRESET=(True,False,True,False,False,True)
def _sel(mask:int):
    return [t for i,t in enumerate(TYPES) if (mask>>i)&1]
def step_set(m1:int,m2:int,v:List[int],q1:int,q2:int,p0:int) -> bool:
    """
    pre: 1<=m1<8 and 1<=m2<8 and 0<=q1<3 and 0<=q2<3 and len(v)<=2
    post: _
    """
    PT=PairTable(TYPES,'x')
    ref={}
    idx=0
    for i in range(3):
        for j in range(i,3):
            if PRESET[idx]:
                PT[TYPES[i],TYPES[j]]=[p0+idx]
                ref[(i,j)]=[p0+idx]
            else:
                ref[(i,j)]=None
            idx+=1
    k1=_sel(m1); k2=_sel(m2)
    PT[k1,k2]=v
    for a in k1:
        for b in k2:
            i,j=sorted((TYPES.index(a),TYPES.index(b)))
            ref[(i,j)]=list(v)
    a,b=TYPES[q1],TYPES[q2]
    i,j=sorted((q1,q2))
    got=PT[a,b]
    if got!=ref[(i,j)]: return False
    if PT[b,a]!=ref[(i,j)]: return False
    v.append(99)
    if PT[a,b]!=ref[(i,j)]: return False
    return True
