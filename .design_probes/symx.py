"""Prototype: symbolic execution of numpy code via object arrays of z3-backed scalars."""
import z3, numpy as _np, fractions, itertools, types, sys, math, time
import scipy.fftpack as _fftpack

class Ctx:
    cur=None
    def __init__(s):
        s.pc=[]          # path constraints (z3 bool)
        s.decisions=[]   # replay prefix
        s.pos=0
        s.assumes=[]     # global assumptions (preconditions)
        s.side=[]        # definedness side conditions (den != 0 ...)
        s.uf={}          # Ackermann registry: name -> list[(argSR, var)]
        s.axioms=[]
        s.nq=0; s.tq=0.0
        s.fresh=itertools.count()
    def solver(s):
        sv=z3.Solver(); sv.set('timeout',30000)
        sv.add(*s.assumes); sv.add(*s.side); sv.add(*s.axioms); sv.add(*s.pc)
        return sv
    def feasible(s,extra):
        sv=s.solver(); sv.add(extra)
        t=time.time(); r=sv.check(); s.nq+=1; s.tq+=time.time()-t
        return str(r)!='unsat'   # unknown treated as feasible (over-approx of paths)
    def decide(s,cond):
        if s.pos<len(s.decisions):
            d=s.decisions[s.pos]
        else:
            t_ok=s.feasible(cond); f_ok=s.feasible(z3.Not(cond))
            if t_ok and f_ok: d=(True,True)    # take True first, other pending
            elif t_ok: d=(True,False)
            elif f_ok: d=(False,False)
            else: raise Infeasible()
            s.decisions.append(d)
        s.pos+=1
        s.pc.append(cond if d[0] else z3.Not(cond))
        return d[0]
class Infeasible(BaseException): pass

def explore(fn):
    """run fn() over all feasible paths; yields (ctx,result_or_exception)"""
    prefix=[]
    while True:
        c=Ctx(); c.decisions=list(prefix); Ctx.cur=c
        try:
            res=('ok',fn(c))
        except Infeasible:
            res=None
        except Exception as e:
            res=('exc',e)
        if res is not None: yield c,res
        # backtrack
        dec=c.decisions[:c.pos] if c.pos<len(c.decisions) else c.decisions
        while dec and not dec[-1][1]: dec.pop()
        if not dec: return
        last=dec.pop(); dec.append((not last[0],False)); prefix=dec

def rat(o):
    if isinstance(o,bool): o=int(o)
    if isinstance(o,(int,_np.integer)): return z3.RealVal(int(o))
    f=float(o)
    if not math.isfinite(f): raise ValueError('non-finite constant')
    fr=fractions.Fraction(f)
    s=fr.limit_denominator(10**6)
    if s!=0 and abs(float(s)-f)<=abs(f)*2**-52 : fr=s
    elif s==0 and f==0: fr=s
    return z3.RealVal(str(fr))
ONE=z3.RealVal(1); ZERO=z3.RealVal(0)
def is_one(t): return z3.is_rational_value(t) and t.numerator_as_long()==1 and t.denominator_as_long()==1
class SR:

    __slots__=('n','d')
    def __init__(s,n,d=ONE): s.n=n; s.d=d
    @staticmethod
    def lift(o):
        if isinstance(o,SR): return o
        if isinstance(o,(int,float,_np.floating,_np.integer,bool)): 
            t=rat(o); return SR(t)
        return None
    def __deepcopy__(s,memo): return s
    def __copy__(s): return s
    def term(s): return s.n if is_one(s.d) else s.n/s.d
    def __add__(s,o):
        o=SR.lift(o)
        if o is None: return NotImplemented
        if z3.eq(s.d,o.d): return SR(s.n+o.n,s.d)
        if is_one(o.d): return SR(s.n+o.n*s.d,s.d)
        if is_one(s.d): return SR(s.n*o.d+o.n,o.d)
        return SR(s.n*o.d+o.n*s.d,s.d*o.d)
    __radd__=__add__
    def __neg__(s): return SR(-s.n,s.d)
    def __pos__(s): return s
    def __sub__(s,o):
        o=SR.lift(o)
        if o is None: return NotImplemented
        return s+(-o)
    def __rsub__(s,o): return (-s)+o
    def __mul__(s,o):
        o=SR.lift(o)
        if o is None: return NotImplemented
        n = o.n if is_one(s.n) else (s.n if is_one(o.n) else s.n*o.n)
        d = o.d if is_one(s.d) else (s.d if is_one(o.d) else s.d*o.d)
        return SR(n,d)
    __rmul__=__mul__
    def inv(s):
        Ctx.cur.side.append(s.n!=0)
        return SR(s.d,s.n)
    def __truediv__(s,o):
        o=SR.lift(o)
        if o is None: return NotImplemented
        return s*o.inv()
    def __rtruediv__(s,o): return SR.lift(o)*s.inv()
    def __pow__(s,o):
        if isinstance(o,SR):
            if z3.is_rational_value(o.n) and is_one(o.d): o=float(o.n.as_fraction())
            else: raise NotImplementedError('symbolic exponent')
        f=float(o)
        if f.is_integer():
            k=int(f)
            if k<0: return (s**(-k)).inv()
            r=SR(ONE)
            for _ in range(k): r=r*s
            return r
        if f==0.5: return s.sqrt()
        if f==-0.5: return s.sqrt().inv()
        raise NotImplementedError('pow %r'%o)
    def _uf(s,name):
        c=Ctx.cur; key=name
        lst=c.uf.setdefault(key,[])
        for a,v in lst:
            if z3.eq(a.n,s.n) and z3.eq(a.d,s.d): return v
        v=SR(z3.Real('%s!%d'%(name,next(c.fresh))))
        for a,w in lst:   # functional consistency
            c.axioms.append(z3.Implies(a.n*s.d==s.n*a.d, w.n==v.n))
        lst.append((s,v)); AX[name](c,s,v,lst)
        return v
    def exp(s): return s._uf('exp')
    def log(s): return s._uf('log')
    def sin(s): return s._uf('sin')
    def cos(s): return s._uf('cos')
    def sqrt(s): return s._uf('sqrt')
    def _cmp(s,o,op):
        o=SR.lift(o)
        if o is None: return NotImplemented
        if is_one(s.d) and is_one(o.d): return SB(op(s.n,o.n))
        return SB(op(s.term(),o.term()))
    def __gt__(s,o): return s._cmp(o,lambda a,b:a>b)
    def __ge__(s,o): return s._cmp(o,lambda a,b:a>=b)
    def __lt__(s,o): return s._cmp(o,lambda a,b:a<b)
    def __le__(s,o): return s._cmp(o,lambda a,b:a<=b)
    def __eq__(s,o): return s._cmp(o,lambda a,b:a==b)
    def __ne__(s,o): return s._cmp(o,lambda a,b:a!=b)
    __hash__=None
    def __abs__(s): return s if (s>=0) else -s
    def __float__(s): raise TypeError('realisation of symbolic real')
    def __repr__(s): return 'SR(%s)'%(z3.simplify(s.term()),)
class SB:
    def __init__(s,e): s.e=e
    def __bool__(s): return Ctx.cur.decide(s.e)
    def __and__(s,o): return SB(z3.And(s.e,o.e if isinstance(o,SB) else bool(o)))
    def __or__(s,o): return SB(z3.Or(s.e,o.e if isinstance(o,SB) else bool(o)))
    def __invert__(s): return SB(z3.Not(s.e))
def _ax_exp(c,a,v,lst):
    c.axioms.append(v.n>0)
    c.axioms.append(z3.Implies(a.term()==0, v.n==1))
    c.axioms.append(z3.Implies(a.term()<=-746, v.n==0) if False else z3.BoolVal(True))
    for b,w in lst[:-1]:
        c.axioms.append(z3.Implies(a.term()<b.term(), v.n<w.n)); c.axioms.append(z3.Implies(a.term()>b.term(), v.n>w.n))
def _ax_none(c,a,v,lst): pass
def _ax_sqrt(c,a,v,lst):
    c.side.append(a.term()>=0); c.axioms.append(v.n>=0); c.axioms.append(v.n*v.n*a.d==a.n)
AX={'exp':_ax_exp,'log':_ax_none,'sin':_ax_none,'cos':_ax_none,'sqrt':_ax_sqrt}

def sym(name,shape=()):
    if shape==(): return SR(z3.Real(name))
    a=_np.empty(shape,dtype=object)
    for idx in _np.ndindex(*shape): a[idx]=SR(z3.Real(name+'_'+'_'.join(map(str,idx))))
    return a
def is_sym(a):
    return isinstance(a,SR) or (isinstance(a,_np.ndarray) and a.dtype==object)

# ---------------- numpy proxy ----------------
def sdet(A):
    n=len(A)
    if n==1: return A[0][0]
    acc=None
    for j in range(n):
        t=A[0][j]*sdet([list(r[:j])+list(r[j+1:]) for r in A[1:]])
        if j%2: t=-t
        acc=t if acc is None else acc+t
    return acc
def sinv(M):
    M=_np.asarray(M,dtype=object)
    if M.ndim==3:
        return _np.stack([sinv(m) for m in M])
    n=M.shape[0]; A=[[SR.lift(M[i,j]) for j in range(n)] for i in range(n)]
    d=sdet(A); di=d.inv()
    out=_np.empty((n,n),dtype=object)
    if n==1: out[0,0]=di; return out
    for i in range(n):
        for j in range(n):
            c=sdet([list(r[:i])+list(r[i+1:]) for k,r in enumerate(A) if k!=j])  # cofactor (j,i)
            out[i,j]=(-c if (i+j)%2 else c)*di
    return out
class _Linalg:
    def inv(s,a): return sinv(a) if is_sym(_np.asarray(a)) or _np.asarray(a).dtype==object else _np.linalg.inv(a)
    def __getattr__(s,k): return getattr(_np.linalg,k)
PI=None
class NP:
    linalg=_Linalg()
    def __getattr__(s,k): return getattr(_np,k)
    @property
    def pi(s): return SR(z3.Real('PI'))
    def zeros(s,shape,dtype=None): 
        a=_np.empty(shape,dtype=object); a.fill(0.0); return a
    def ones(s,shape,dtype=None):
        a=_np.empty(shape,dtype=object); a.fill(1.0); return a
    def zeros_like(s,a): 
        b=_np.empty(_np.shape(a),dtype=object); b.fill(0.0); return b
    def ones_like(s,a):
        b=_np.empty(_np.shape(a),dtype=object); b.fill(1.0); return b
    def arange(s,start,stop=None,step=1):
        if not any(isinstance(x,SR) for x in (start,stop,step)): return _np.arange(start,stop,step)
        start,stop,step=map(SR.lift,(start,stop,step))
        q=(stop-start)/step
        # count = ceil(q): find unique integer n with n-1 < q <= n
        c=Ctx.cur; sv=c.solver(); n=z3.Int('n!arange')
        sv.add(z3.ToReal(n)-1<q.term(), q.term()<=z3.ToReal(n)); assert str(sv.check())=='sat'
        nv=sv.model()[n].as_long()
        if not bool(SB(z3.And(nv-1<q.term(), q.term()<=nv))): raise RuntimeError('arange: other count')
        out=_np.empty(nv,dtype=object)
        for i in range(nv): out[i]=start+step*i
        return out
    def where(s,c,a,b):
        return _np.where(_np.asarray(c,dtype=bool),a,b)
np=NP()
def dst(x,type=2):
    x=_np.asarray(x)
    if x.dtype!=object: return _fftpack.dst(x,type=type)
    N=len(x); out=_np.empty(N,dtype=object)
    S=lambda num,den: sinpi(num,den)
    if type==2:
        for k in range(N):
            acc=SR(ZERO)
            for n in range(N): acc=acc+x[n]*S((k+1)*(2*n+1),2*N)
            out[k]=acc*2
    elif type==3:
        for k in range(N):
            acc=x[N-1]*((-1)**k)
            for n in range(N-1): acc=acc+x[n]*S((n+1)*(2*k+1),2*N)*2
            out[k]=acc
    return out
def sinpi(num,den):
    """exact sin(pi*num/den) as SR for den in {2,4,6,8,12}"""
    fr=fractions.Fraction(num,den)%2
    sign=1
    if fr>=1: fr-=1; sign=-1
    if fr>fractions.Fraction(1,2): fr=1-fr
    c=Ctx.cur
    table={fractions.Fraction(0):0,fractions.Fraction(1,2):1,fractions.Fraction(1,6):fractions.Fraction(1,2)}
    if fr in table: return SR(z3.RealVal(str(table[fr]*sign)))
    def alg(name,poly,lo,hi):
        v=z3.Real(name)
        if not any(z3.eq(v,a) for a in getattr(c,'algv',[])):
            c.algv=getattr(c,'algv',[])+[v]; c.axioms+= [poly(v)==0, v>lo, v<hi]
        return v
    if fr==fractions.Fraction(1,4): v=alg('SQ2',lambda v:v*v-2,1,2); return SR(v*sign,z3.RealVal(2))
    if fr==fractions.Fraction(1,3): v=alg('SQ3',lambda v:v*v-3,1,2); return SR(v*sign,z3.RealVal(2))
    raise NotImplementedError(fr)

def patch(mod):
    if hasattr(mod,'np'): mod.np=np
    if hasattr(mod,'dst'): mod.dst=dst
def patch_all(prefix='pyPRISM'):
    for k,m in list(sys.modules.items()):
        if k.startswith(prefix) and m is not None: patch(m)

def prove(c,claim,name='',timeout=60000):
    """claim: z3 bool; returns 'holds'|'cex'|'unknown', model"""
    sv=c.solver(); sv.set('timeout',timeout); sv.add(z3.Not(claim))
    t=time.time(); r=sv.check(); c.nq+=1; c.tq+=time.time()-t
    if str(r)=='unsat': return 'holds',None
    if str(r)=='sat': return 'cex',sv.model()
    return 'unknown',None
def eqc(a,b):
    a=SR.lift(a); b=SR.lift(b)
    return a.n*b.d==b.n*a.d
