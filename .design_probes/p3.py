import z3, time
class Q:
    def __init__(s,n,d=None): s.n=n; s.d=d if d is not None else z3.RealVal(1)
    def __add__(s,o): return Q(s.n*o.d+o.n*s.d, s.d*o.d) if not z3.eq(s.d,o.d) else Q(s.n+o.n,s.d)
    def __sub__(s,o): return Q(s.n*o.d-o.n*s.d, s.d*o.d) if not z3.eq(s.d,o.d) else Q(s.n-o.n,s.d)
    def __mul__(s,o): return Q(s.n*o.n,s.d*o.d)
    def __truediv__(s,o): return Q(s.n*o.d,s.d*o.n)
    def __neg__(s): return Q(-s.n,s.d)
def mat(name,n):
    M=[[None]*n for _ in range(n)]
    for i in range(n):
        for j in range(i,n):
            M[i][j]=M[j][i]=Q(z3.Real(f'{name}{i}{j}'))
    return M
Z=lambda v: Q(z3.RealVal(v))
def mm(A,B):
    n=len(A); out=[]
    for i in range(n):
        row=[]
        for j in range(n):
            acc=A[i][0]*B[0][j]
            for k in range(1,n): acc=acc+A[i][k]*B[k][j]
            row.append(acc)
        out.append(row)
    return out
def det(A):
    n=len(A)
    if n==1: return A[0][0]
    acc=None
    for j in range(n):
        t=A[0][j]*det([r[:j]+r[j+1:] for r in A[1:]])
        if j%2: t=-t
        acc=t if acc is None else acc+t
    return acc
def inv(A):
    n=len(A); d=det(A)
    if n==1: return [[Z(1)/A[0][0]]]
    def cof(i,j):
        c=det([r[:j]+r[j+1:] for k,r in enumerate(A) if k!=i])
        return -c if (i+j)%2 else c
    return [[cof(j,i)/d for j in range(n)] for i in range(n)]
for n in (2,3):
    O=mat('w',n); C=mat('c',n)
    rho=[Q(z3.Real(f'rho{i}')) for i in range(n)]
    I=[[Z(1 if i==j else 0) for j in range(n)] for i in range(n)]
    OC=mm(O,C); IOC=[[I[i][j]-OC[i][j] for j in range(n)] for i in range(n)]
    H=mm(mm(inv(IOC),OC),O)
    tot=[[H[i][j]/(rho[i]*rho[j]) for j in range(n)] for i in range(n)]
    Hs=[[tot[i][j]*(rho[i]*rho[j]) for j in range(n)] for i in range(n)]
    OpH=[[O[i][j]+Hs[i][j] for j in range(n)] for i in range(n)]
    for name,R in (('ok',mm(OC,OpH)),('mut',mm(mm(C,O),OpH))):
        tt=0; res=[]
        for i in range(n):
            for j in range(n):
                s=z3.Solver(); s.set('timeout',60000)
                a,b=Hs[i][j],R[i][j]
                s.add(det(IOC).n!=0, *[r.n>0 for r in rho])
                s.add(a.n*b.d != b.n*a.d)
                t=time.time(); r=s.check(); tt+=time.time()-t; res.append(str(r))
        print('rank',n,name,res,round(tt,2))
